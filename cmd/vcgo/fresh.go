package main

import (
	"fmt"
	"go/ast"
	"go/types"
	"strings"
)

// C09: "fresh-equivalent" predicates generated from the go/types field list of a struct on every run.
// A field that is in the struct and has neither a generated conjunct nor an override cannot exist.

type freshOverride struct {
	Owned  bool // pointer field: nil, or the object it points to is fresh-equivalent
	Ignore bool
	Value  ast.Expr // expected value (spec expression)
	Reason string
}

type freshField struct {
	Path string // dotted field path
	Cond string // SMT condition that the field is fresh-equivalent
}

// freshFields enumerates the conjuncts of isFresh for the object of struct type T at ref r.
func (env *SpecEnv) freshFields(r string, T types.Type, prefix string, depth int) []freshField {
	e := env.e
	st, ok := T.Underlying().(*types.Struct)
	if !ok || depth > 6 {
		return nil
	}
	var out []freshField
	for i := 0; i < st.NumFields(); i++ {
		f := st.Field(i)
		path := prefix + f.Name()
		key := structKey(T) + "." + f.Name()
		if ov, ok := e.W.freshOverrides[key]; ok {
			if ov.Ignore {
				e.note("C09 override: " + key + " is not part of the fresh-equivalent state: " + ov.Reason)
				continue
			}
			if ov.Owned {
				p := e.fieldAddr(r, T, i)
				cur := env.pureLoad(p, f.Type())
				pt, ok := f.Type().Underlying().(*types.Pointer)
				if !ok {
					env.fail("fresh-override owned on non-pointer field %s", key)
				}
				e.note("C09 override: " + key + " is an owned object kept across resets: " + ov.Reason)
				for _, sub := range env.freshFields(cur.T, pt.Elem(), path+"->", depth+1) {
					out = append(out, freshField{sub.Path, sOr(sEq(cur.T, "0"), sub.Cond)})
				}
				continue
			}
			p := e.fieldAddr(r, T, i)
			cur := env.pureLoad(p, f.Type())
			want := env.eval(ov.Value)
			e.note("C09 override: " + key + " has a non-zero fresh value: " + ov.Reason)
			out = append(out, freshField{path, sEq(cur.T, want.T)})
			continue
		}
		ft := f.Type()
		if n, ok := ft.(*types.Named); ok && n.Obj().Pkg() != nil {
			pk, nm := n.Obj().Pkg().Path(), n.Obj().Name()
			if pk == "sync" || pk == "sync/atomic" || nm == "noCopy" || nm == "NoCopy" {
				continue // synchronisation state, not data
			}
		}
		p := e.fieldAddr(r, T, i)
		switch u := ft.Underlying().(type) {
		case *types.Struct:
			out = append(out, env.freshFields(p.T, ft, path+".", depth+1)...)
			_ = u
		case *types.Array:
			e.note("C09: array-typed field " + key + " is not compared (scratch storage)")
		default:
			v := env.pureLoad(p, ft)
			switch v.K {
			case KInt:
				out = append(out, freshField{path, sEq(v.T, "0")})
			case KBool:
				out = append(out, freshField{path, sNot(v.T)})
			case KSlc:
				out = append(out, freshField{path, sEq(slcLen(v.T), "0")})
			case KRef, KPtrField:
				out = append(out, freshField{path, sEq(v.T, "0")})
			}
		}
	}
	return out
}

// freshPred: isFresh(x) for a pointer to struct x.
func (env *SpecEnv) freshPred(name string, n *ast.CallExpr) (Val, bool) {
	if name != "isFresh" || len(n.Args) != 1 {
		return Val{}, false
	}
	fs := env.freshOf(n.Args[0])
	var cs []string
	for _, f := range fs {
		cs = append(cs, f.Cond)
	}
	return vBool(sAnd(cs...)), true
}

func (env *SpecEnv) freshOf(arg ast.Expr) []freshField {
	x := env.eval(arg)
	if x.K != KRef || x.Ty == nil {
		env.fail("isFresh needs a pointer to a struct")
	}
	T := x.Ty
	if p, ok := T.Underlying().(*types.Pointer); ok {
		T = p.Elem()
	}
	if _, ok := T.Underlying().(*types.Struct); !ok {
		env.fail("isFresh needs a pointer to a struct, got %s", T)
	}
	return env.freshFields(x.T, T, "", 0)
}

// isFreshCall recognises an ensures clause of the form isFresh(x).
func isFreshCall(x ast.Expr) (ast.Expr, bool) {
	if c, ok := x.(*ast.CallExpr); ok {
		if id, ok := c.Fun.(*ast.Ident); ok && id.Name == "isFresh" && len(c.Args) == 1 {
			return c.Args[0], true
		}
	}
	return nil, false
}

// parseFreshOverride: fresh-override pkg.Type.field ignore :: reason | = expr :: reason
func (p *contractParser) freshOverride(rest string) error {
	reason := ""
	if i := strings.Index(rest, "::"); i >= 0 {
		reason = strings.TrimSpace(rest[i+2:])
		rest = strings.TrimSpace(rest[:i])
	}
	fs := strings.Fields(rest)
	if len(fs) < 2 {
		return fmt.Errorf("fresh-override needs: Type.field ignore|= expr :: reason")
	}
	key := fs[0]
	if strings.Count(key, ".") == 1 {
		key = p.pkg.Name() + "." + key
	}
	ov := &freshOverride{Reason: reason}
	switch fs[1] {
	case "ignore":
		ov.Ignore = true
	case "owned":
		ov.Owned = true
	case "=":
		e, err := parseSpecExpr(strings.Join(fs[2:], " "))
		if err != nil {
			return err
		}
		ov.Value = e
	default:
		return fmt.Errorf("fresh-override: expected ignore or =")
	}
	if reason == "" {
		return fmt.Errorf("fresh-override %s needs a reason after ::", key)
	}
	p.w.freshOverrides[key] = ov
	return nil
}

// ghostFieldKey: the declared ghost field for selector name on type T: "pkg.Type.name", or the
// wildcard declaration "*.name" (ghost fields of reader/writer objects seen through several interfaces).
func (w *World) ghostFieldKey(T types.Type, name string) (string, *GhostVar, bool) {
	k := structKey(T) + "." + name
	if g, ok := w.ghosts[k]; ok {
		return k, g, true
	}
	k = "*." + name
	if g, ok := w.ghosts[k]; ok {
		return k, g, true
	}
	return "", nil, false
}
