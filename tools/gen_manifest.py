#!/usr/bin/env python3
"""Regenerates /verif/MANIFEST.json from the table below (kept next to the checks it describes)."""
import json, subprocess

TECH = "contract-based deductive verification: VCs generated over go/ssa of /repo's current source from contracts in comment-only files behind build tag verif, discharged by z3 5.1.0 / z3 4.8.12 / cvc5 1.0.3"
TRUST = ("trusted: go/ssa lowering (x/tools v0.29.0), the vcgo encoder (guarded by smoke/canary checks and a must-fail corpus), the SMT solvers, "
         "assumed contracts of stdlib/dependency functions listed in the evidence, single-threaded execution of each verified function. ")

CLAIMS = {
 "C01": ("slices: framing-name recognition (CaseInsensitiveCompare) is exact ASCII-case-insensitive equality and ParseUintBuf returns the mathematical value of the digits or an error, for all byte strings, unbounded; in Server.Serve (abstract-mode typestate) the handler runs at most once per iteration, only after header and body were read without error and never on the reject path, one response is written per iteration and only after the handler (or on the reject path), and the context is reset only after the response",
         "not decided: whole-stream end-to-end claim, header field content equality, netpoll transport", "3 C01"),
 "C03": ("slices: absence of run-time panics (index, slice, nil, explicit panic, make size, division) for all inputs in the parsers of untrusted data under contract (see evidence for the list); reject path of Server.Serve (abstract-mode typestate): the error response is written exactly once, carries Connection: close, no handler runs in that iteration and Serve returns right after it",
         "not decided: well-formedness of everything emitted; functions not yet under contract", "3 C03"),
 "C05": ("newlineToSpace yields a same-length copy without CR or LF and appendHeaderLine appends nothing or exactly one line whose only CR/LF bytes are its own terminator, for all byte strings; in the header serialisers (RequestHeader/ResponseHeader/Trailer.AppendBytes) every raw append of non-constant bytes is proved free of CR and LF and raw appenders may only fill standalone buffers, so every line break in the output is one the serialiser wrote itself",
         "not decided: the request line (method, request URI) is application-controlled and outside the property's list - reported as exempt in the evidence; consts.StatusLine is an assumed contract; count of fields is by construction of the call-site discipline, not a counted postcondition", "3 C05"),
 "C09": ("every Reset/ResetWithoutConn/ResetBody method of RequestContext, Request, Response, RequestHeader, ResponseHeader, URI, Args, Cookie and Trailer establishes, from ANY pre-state (all histories), a fresh-equivalent predicate that is generated on every run from the struct's current go/types field list (a new field without a reset line fails a named obligation); overrides are listed with reasons in the contract files and the evidence",
         "not decided: objects migrating between goroutines through sync.Pool; bodyStream/chunkedBodyWriter/clientConn resets and the Acquire/Release wrappers are not yet under contract; stale capacity beyond len is treated as unobservable; ownership (request and response of one context do not share trailer/body objects) is a precondition. Known finding: exiled flag survives reset", "3 C09"),
 "C07": ("normalizePath: for every dst/src (not sharing an array) the result starts with '/', contains no '//', '/./', '/../' and does not end in '/..' - unbounded proof by loop invariants; its helpers addLeadingSlash and decodeArgAppendNoPlus verified against append-style contracts",
         "not decided: equality with the decode-then-stack reference; CleanPath (not yet under contract); non-overlap of URI's internal buffers is assumed", "3 C07"),
 "C12": ("RequestContext.Next/Abort with a ghost entry log (largest handler index entered, aborted flag): every handler entry has an index strictly greater than all earlier ones and inside the chain and happens only when Abort has not been called; Next returns only with the index past the chain; Abort sets the abort index; unknown handlers are covered by a rely condition that Next and Abort themselves are proved to satisfy; combineHandlers/Use/Group/handle/NoRoute/NoMethod/Engine.Use: the chain registered is a FRESH copy of group middleware followed by the route's handlers, shorter than the abort index, and allNoRoute/allNoMethod are engine middleware followed by the no-route/no-method handlers",
         "assumed: a handler does not call SetHandlers/Reset on the live context; a panic from int8 wrap-around of the chain index is not recovered and followed by >= 127 further Next calls (partial correctness stops at the first panic); len(handlers) < 63 is a precondition of Next (established by combineHandlers); not decided: Engine.ServeHTTP's choice of chain, router lookup (C06)", "3 C12"),
 "C19": ("tracer typestate of Server.Serve (abstract mode: every call that cannot touch the ghost state havocs all real state): DoStart only when no start is outstanding, DoFinish only when exactly one start is outstanding and the stage-event stack is empty, on every path of every iteration including the deferred epilogue and the stage closures; no start outstanding at the loop head and at every return",
         "assumed: eventStack.push/pop effect on the event depth (three-line functions), sync.Pool.Get returns non-nil; the ghost state is only meaningful for the call sites inside Serve and the closures inlined into it; not decided: timestamp ordering inside a pair, the netpoll return-to-poller re-entry", "3 C19"),
 "C10": ("sequential slices: HostClient.Do leaves the pending-request gauge balanced on every path and hands a request to c.do more than once only if the default retry predicate (assumed to answer true only for requests safe to repeat) allowed it or a custom retry function is installed; HostClient.doNonNilReqResp disposes of every acquired connection exactly once on every path (closed, released or handed to the upgrade wrapper / stream callback), never twice, and releases it to the pool only with err == nil and no close demand",
         "not decided: everything quantified over interleavings (exclusivity, connsCount bound, waiter hand-off, idle reaper) and wall-clock bounds; analysed in abstract mode: calls without ghost-relevant contracts havoc all real state; the stream-close callback's own disposal is not followed", "3 C10"),
 "C18": ("sequential slice only: in Server.Serve, when Core.IsRunning() is observed false at the exit check after the handler, Connection: close is on the response before writeResponse is called and the loop does not start another iteration",
         "not decided: everything quantified over schedules and time (in-flight completion, listener close, wait bound, Shutdown's hook fan-out); this is a necessary condition of the property, not the property", "3 C18"),
 "C08": ("slice: ParseByteRange, for every header value and every contentLength >= 0: on success 0 <= start <= end < contentLength (so Content-Range and the body length derived from it are consistent) and the value starts with \"bytes=\"; no panic for any input",
         "not decided: the RFC 7233 value of each range form (needs the digit-value function through two nested calls; not yet stated), the file-system side (which file is opened, caching, compression, symlinks), handleRequest's use of the range", "3 C08"),
 "C14": ("fixed-length streamed bodies against an abstract reader (ghost wire position): bodyStream.Read never takes more bytes off the wire than the body still has and returns n <= len(p); bodyStream.skipRest on success leaves the wire exactly at the first byte after the body; chunked bodies: a chunk-size line is parsed only when no chunk data is pending (in Read and in skipRest) and chunkLeft never goes negative; ParseChunkSize returns a non-negative size; ReadHexInt returns the value of 1..15 hex digits with maximal munch",
         "assumed: the network.Reader / io.Reader / bytes.Reader contracts (C13 is not applicable, so the reader is a model), ReadTrailer and SkipTrailer frames (used at call sites, not verified); partial correctness (nosafety: bounds are assumed in these two functions); not decided: that reads do not block beyond the body, ReadBodyWithStreaming's prefetch, netpoll", "3 C14"),
 "C11": ("slice: the buffered body readers enforce the configured limit — ext.ReadBody, readBodyChunked, readBodyIdentity: on success with a positive limit the returned body is not longer than the limit (loop invariants, unbounded), a fixed-length body is exactly the announced bytes taken from the wire, and round2 is the smallest power of two above its argument",
         "not decided: equality of what an independent parser would decode, request serialisation (req.write), multipart, 100-continue, streaming mode; the reader is the assumed abstract model. Known finding: without a limit the allocation size is peer-controlled (makeslice panic)", "3 C11"),
 "C04": ("slices: a response that must not carry a body is exactly one with status 1xx, 204 or 304 (MustSkipContentLength) or with SkipBody set (MustSkipBody); SetContentLength leaves such a header untouched and otherwise stores the argument (text emptied for unknown lengths, AppendUint called with exactly the length on an emptied buffer); AppendUint: the digits it assembles are 1..20 decimal digits whose value is n and the result is dst followed by exactly those bytes; resp.Write (abstract-mode typestate): the header block goes to the writer first and once, the body only when MustSkipBody is false and non-empty, it is the response's body slice, and the Content-Length handed to the header equals its length; ext.WriteChunk writes size(len(b)), CRLF, b and, for a non-empty chunk, CRLF, in this order; resp.writeBodyStream writes the header once and first, and body bytes, chunk terminator and trailers only when a body may be sent, the fixed-size writer gets exactly the announced length and chunked framing is announced before a chunked body",
         "not decided: what an independent client decodes; WriteHexInt's digits (pool-typed buffer), chunkedBodyWriter, flush thresholds; the fold over AppendUint's result equals the fold over its scratch buffer (extensionality step not mechanised); argsKV list helpers are assumed frames", "3 C04"),
 "C02": ("frame slice only: the in-place header scanner never disturbs bytes it has not consumed — HeaderScanner.Next leaves its window a suffix of the old window in the same array with the same end and changes memory only inside the prefix consumed by that step; normalizeHeaderValue writes only inside the value it compacts and returns an in-place suffix; NormalizeHeaderKey changes only the letter case of the bytes of its argument",
         "not decided: the relational claim itself (identical results for all segmentations is a 2-safety property over schedules), the retry loops around errNeedMore, ReadRawHeaders/NextLine purity, HLen accounting on the folded path, the client side; partial correctness (bounds assumed in Next and normalizeHeaderValue)", "3 C02"),
}
NA = {
 "C06": "recursive pointer trie with back-pointers, goto/closure backtracking and a recursive priority-match specification; no contract within reach of this tool chain states or decides priority dispatch",
 "C13": "recursive linked heap structure with block recycling; needs separation-logic style list predicates not available in this tool chain",
 "C15": "reflection over run-time types and dynamically assembled decoder closures are outside any VC language available here",
 "C16": "property is about the semantics of generated program text; not expressible as a pre/postcondition on the generator's functions",
 "C20": "interface-dispatched recursive tree with rotation to a fixpoint and float64 dynamic typing; no contract within reach",
}
PENDING = "claimed in DESIGN.md but its contracts are not built yet in this revision; not claimed until its check exists"

hooks = subprocess.run(["git","-C","/repo","log","--format=%h %s"],capture_output=True,text=True).stdout.strip().split("\n")
hook_commits=[l.split()[0] for l in hooks if l.split(" ",1)[1].startswith("verif:")]

checks=[]
for pid,(text,notdec,ref) in sorted(CLAIMS.items()):
    checks.append({"property_id":pid,"quick_cmd":f"./check {pid} --tier quick","thorough_cmd":f"./check {pid} --tier thorough",
      "evidence_file":f"/verif/evidence/{pid}.json","replay_cmd_template":"./check replay {path}","engine":"vcgo",
      "level_claimed":{"category":"proof","text":text,"design_ref":"DESIGN.md section "+ref},
      "level_note":TRUST+notdec,"technique":TECH})
na=[{"property_id":k,"reason":v} for k,v in sorted(NA.items())]
for i in range(1,21):
    pid="C%02d"%i
    if pid not in CLAIMS and pid not in NA:
        na.append({"property_id":pid,"reason":PENDING})
na.sort(key=lambda x:x["property_id"])
m={"version":1,
 "setup_cmd":"cd /verif && GOFLAGS=-mod=vendor GOPROXY=off GOSUMDB=off GOTOOLCHAIN=local CGO_ENABLED=0 go build -o bin/vcgo ./cmd/vcgo",
 "hooks":{"guard":"verif","enable":"go build tag: -tags verif (contract files zz_contracts_verif.go are comment-only and compiled only with the tag)",
   "baseline_off_cmd":"cd /repo && go build ./... && go test -vet=off -count=1 -timeout 25m ./...",
   "source_commits":hook_commits,"add_only":True},
 "engines":[{"name":"vcgo","path":"/verif/cmd/vcgo","serves_properties":sorted(CLAIMS),
   "kind_free_text":"contract-based deductive verifier for Go written for this task: VCs over go/ssa of /repo's current source, contracts in comment-only files behind build tag verif, obligations discharged by z3 5.1.0 / z3 4.8.12 / cvc5 1.0.3"}],
 "checks":checks,"not_applicable":na,
 "notes":"see DESIGN.md; known_findings.json lists the repaired defects (status fixed) and recorded findings"}
json.dump(m,open("/verif/MANIFEST.json","w"),indent=1)
print("checks:",[c["property_id"] for c in checks])
