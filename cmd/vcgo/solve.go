package main

import (
	"context"
	"fmt"
	"os"
	"os/exec"
	"path/filepath"
	"strings"
	"sync"
	"time"
)

type Verdict struct {
	Obl       *Obligation
	Fn        *FuncResult
	Status    string // unsat, sat, unknown, timeout, error
	Solver    string
	Time      float64
	Model     map[string]string
	Output    string
	SMTFile   string
	Size      int
	Candidate bool // model from the quantifier-free relaxation: only a candidate until replayed
}

type solverSpec struct {
	name string
	cmd  func(timeout int) []string
}

var solvers = []solverSpec{
	{"z3-5.1.0", func(t int) []string { return []string{"z3-new", "-in", fmt.Sprintf("-T:%d", t)} }},
	{"z3-4.8.12", func(t int) []string { return []string{"z3", "-in", fmt.Sprintf("-T:%d", t)} }},
	{"cvc5-1.0.3", func(t int) []string { return []string{"cvc5", "--lang=smt2", fmt.Sprintf("--tlimit=%d", t*1000)} }},
}

func runSolver(ctx context.Context, s solverSpec, scriptFile string, timeout int) (status, out string, secs float64) {
	args := s.cmd(timeout)
	cctx, cancel := context.WithTimeout(ctx, time.Duration(timeout+2)*time.Second)
	defer cancel()
	cmd := exec.CommandContext(cctx, args[0], args[1:]...)
	in, err := os.Open(scriptFile)
	if err != nil {
		return "error", err.Error(), 0
	}
	defer in.Close()
	of, err := os.CreateTemp(filepath.Dir(scriptFile), "out*")
	if err != nil {
		return "error", err.Error(), 0
	}
	defer os.Remove(of.Name())
	defer of.Close()
	cmd.Stdin = in
	cmd.Stdout = of
	cmd.Stderr = of
	t0 := time.Now()
	_ = cmd.Run()
	secs = time.Since(t0).Seconds()
	data, _ := os.ReadFile(of.Name())
	out = string(data)
	first := ""
	for _, l := range strings.Split(out, "\n") {
		l = strings.TrimSpace(l)
		if l == "unsat" || l == "sat" || l == "unknown" || strings.Contains(l, "timeout") {
			first = l
			break
		}
		if strings.HasPrefix(l, "(error") && first == "" {
			first = l
		}
	}
	switch {
	case first == "unsat":
		status = "unsat"
	case first == "sat":
		status = "sat"
	case first == "unknown":
		status = "unknown"
	case strings.Contains(first, "timeout") || cctx.Err() != nil:
		status = "timeout"
	default:
		status = "error"
	}
	return
}

var workDir string
var workMu sync.Mutex

func scratchDir() string {
	workMu.Lock()
	defer workMu.Unlock()
	if workDir == "" {
		d, err := os.MkdirTemp("", "vcgo")
		if err != nil {
			panic(err)
		}
		workDir = d
	}
	return workDir
}

// solve decides one obligation with the portfolio: z3-new first with a short
// budget, then all three in parallel with the full budget.
func solve(ctx context.Context, script string, timeout int, wantModel bool, modelTerms []string) (status, solver, out string, secs float64, model map[string]string) {
	full := script
	if wantModel && len(modelTerms) > 0 {
		full = script + "(get-value (" + strings.Join(modelTerms, " ") + "))\n"
	}
	sf, err := os.CreateTemp(scratchDir(), "q*.smt2")
	if err != nil {
		return "error", "", err.Error(), 0, nil
	}
	sf.WriteString(full)
	sf.Close()
	defer os.Remove(sf.Name())
	full = sf.Name()
	quick := 3
	if timeout < quick {
		quick = timeout
	}
	st, o, t := runSolver(ctx, solvers[0], full, quick)
	total := t
	if st == "unsat" {
		return st, solvers[0].name, o, total, nil
	}
	if st == "sat" {
		return st, solvers[0].name, o, total, parseModel(o, modelTerms)
	}
	// race
	type res struct {
		st, o, name string
		t           float64
	}
	cctx, cancel := context.WithCancel(ctx)
	defer cancel()
	ch := make(chan res, len(solvers))
	for _, s := range solvers {
		s := s
		go func() {
			st, o, t := runSolver(cctx, s, full, timeout)
			ch <- res{st, o, s.name, t}
		}()
	}
	best := res{st: st, o: o, name: solvers[0].name}
	for range solvers {
		r := <-ch
		if r.t > total {
			total = r.t
		}
		if r.st == "unsat" {
			return "unsat", r.name, r.o, total, nil
		}
		if r.st == "sat" && best.st != "sat" {
			best = r
		} else if best.st != "sat" && best.st != "unknown" && r.st == "unknown" {
			best = r
		} else if best.st == "error" && r.st != "error" {
			best = r
		}
	}
	if best.st == "sat" {
		return "sat", best.name, best.o, total, parseModel(best.o, modelTerms)
	}
	return best.st, best.name, best.o, total, nil
}

// parseModel reads the (get-value ...) answer: ((term value) ...)
func parseModel(out string, terms []string) map[string]string {
	i := strings.Index(out, "((")
	if i < 0 {
		return nil
	}
	body := out[i:]
	// strip outer parens
	body = strings.TrimSpace(body)
	if len(body) < 2 {
		return nil
	}
	inner := body[1:]
	if j := strings.LastIndex(inner, ")"); j >= 0 {
		inner = inner[:j]
	}
	pairs := splitTop(inner)
	m := map[string]string{}
	for k, p := range pairs {
		if k >= len(terms) {
			break
		}
		p = strings.TrimSpace(p)
		if len(p) < 2 {
			continue
		}
		kv := splitTop(p[1 : len(p)-1])
		if len(kv) >= 2 {
			m[terms[k]] = strings.Join(kv[1:], " ")
		}
	}
	return m
}

func smtIntValue(s string) (int64, bool) {
	s = strings.TrimSpace(s)
	neg := false
	if strings.HasPrefix(s, "(-") {
		neg = true
		s = strings.TrimSpace(strings.TrimSuffix(strings.TrimPrefix(s, "(-"), ")"))
	}
	var n int64
	if _, err := fmt.Sscanf(s, "%d", &n); err != nil {
		return 0, false
	}
	if neg {
		n = -n
	}
	return n, true
}

// runAll decides every obligation of the given functions, jobs-wide.
func runAll(frs []*FuncResult, timeout, jobs int, keepDir string) []*Verdict {
	type job struct {
		fr *FuncResult
		o  *Obligation
	}
	var js []job
	for _, fr := range frs {
		if fr.Enc == nil {
			continue
		}
		for _, o := range fr.Enc.obls {
			js = append(js, job{fr, o})
		}
	}
	out := make([]*Verdict, len(js))
	var wg sync.WaitGroup
	sem := make(chan struct{}, jobs)
	for i, j := range js {
		i, j := i, j
		wg.Add(1)
		sem <- struct{}{}
		go func() {
			defer wg.Done()
			defer func() { <-sem }()
			v := &Verdict{Obl: j.o, Fn: j.fr}
			out[i] = v
			if !j.o.Smoke && !j.o.Canary && j.o.Goal == "true" {
				v.Status, v.Solver = "unsat", "trivial"
				return
			}
			script := j.fr.Enc.script(j.o, false)
			v.Size = len(script)
			var terms []string
			if !j.o.Smoke && !j.o.Canary {
				for _, mv := range j.fr.Enc.modelDesc {
					terms = append(terms, mv.Terms...)
				}
			}
			to := timeout
			if j.o.Canary || j.o.Smoke {
				to = 2
			}
			v.Status, v.Solver, v.Output, v.Time, v.Model = solve(context.Background(), script, to, len(terms) > 0, terms)
			if v.Status != "unsat" && v.Status != "sat" && !j.o.Canary && !j.o.Smoke && len(terms) > 0 {
				// candidate-model search: drop quantified hypotheses (never a proof step)
				s2 := j.fr.Enc.script(j.o, true)
				st2, _, _, t2, m2 := solve(context.Background(), s2, 5, true, terms)
				v.Time += t2
				if st2 == "sat" && m2 != nil {
					v.Model = m2
					v.Candidate = true
				}
			}
			if v.Model != nil && (v.Status == "sat" || v.Candidate) {
				// prefer a small counterexample (replayable): bound the lengths of the slice/string parameters
				var bounds []string
				s3probe := j.fr.Enc.script(j.o, v.Candidate)
				for _, mv := range j.fr.Enc.modelDesc {
					if (mv.Kind == "bytes" || mv.Kind == "string" || mv.Kind == "slice") && len(mv.Terms) >= 2 {
						bounds = append(bounds, "(assert (<= "+mv.Terms[0]+" 40))", "(assert (<= "+mv.Terms[1]+" 64))")
						if v.Candidate && mv.Arr != "" && !j.fr.Enc.paramMayBeWritten(mv.Name) {
							// the quantified frame axioms are dropped in the relaxation: restate, for a parameter the
							// function never writes, that every memory version agrees with the entry content
							for _, mver := range j.fr.Enc.memVers {
								if mver != mv.Mem0 && strings.Contains(s3probe, mver) {
									bounds = append(bounds, "(assert (= (select "+mver+" "+mv.Arr+") (select "+mv.Mem0+" "+mv.Arr+")))")
								}
							}
						}
					}
				}
				if len(bounds) > 0 {
					s3 := s3probe
					if k := strings.LastIndex(s3, "(check-sat)"); k >= 0 {
						s3 = s3[:k] + strings.Join(bounds, "\n") + "\n" + s3[k:]
						st3, _, _, t3, m3 := solve(context.Background(), s3, 3, true, terms)
						v.Time += t3
						if st3 == "sat" && m3 != nil {
							v.Model = m3
						}
					}
				}
			}
			if keepDir != "" && (os.Getenv("VCGO_KEEPALL") != "" || (v.Status != "unsat" && !j.o.Canary && !j.o.Smoke) || ((j.o.Canary || j.o.Smoke) && v.Status == "unsat")) {
				name := strings.NewReplacer("/", "_", ":", "_", "#", "_", " ", "_", "*", "_", "[", "_", "]", "_", "(", "_", ")", "_").Replace(j.o.Name)
				if len(name) > 150 {
					name = name[:150]
				}
				p := filepath.Join(keepDir, name+".smt2")
				os.MkdirAll(keepDir, 0o755)
				os.WriteFile(p, []byte(script), 0o644)
				v.SMTFile = p
			}
		}()
	}
	wg.Wait()
	// Second chance for undecided obligations: a timeout (or an "unknown" given up early) on a loaded machine is not a
	// verdict. At most six such obligations are asked again, side by side now that nothing else runs, with three times
	// the time (at least 30 s). Only an unsat answer changes anything; the solver name records the retry.
	var again []int
	for i, v := range out {
		if v != nil && !js[i].o.Smoke && !js[i].o.Canary && (v.Status == "timeout" || v.Status == "unknown" || v.Status == "error") {
			again = append(again, i)
		}
	}
	if n := len(again); n > 0 && n <= 6 {
		to := 3 * timeout
		if to < 30 {
			to = 30
		}
		var wg2 sync.WaitGroup
		for _, i := range again {
			i := i
			wg2.Add(1)
			go func() {
				defer wg2.Done()
				script := js[i].fr.Enc.script(js[i].o, false)
				st, sv, o, t, _ := solve(context.Background(), script, to, false, nil)
				out[i].Time += t
				if st == "unsat" {
					out[i].Status, out[i].Solver, out[i].Output = "unsat", sv+" (retry)", o
					out[i].Model, out[i].Candidate = nil, false
				}
			}()
		}
		wg2.Wait()
	}
	return out
}
