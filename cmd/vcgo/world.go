package main

import (
	"fmt"
	"go/ast"
	"go/constant"
	"go/token"
	"go/types"
	"os"
	"sort"
	"strings"
	"sync"

	"golang.org/x/tools/go/packages"
	"golang.org/x/tools/go/ssa"
	"golang.org/x/tools/go/ssa/ssautil"
)

// World: the loaded program plus all contracts.
type World struct {
	fset           *token.FileSet
	pkgs           []*packages.Package
	allPkgs        map[string]*packages.Package
	prog           *ssa.Program
	contracts      map[string]*Contract
	conOrder       []string
	ghosts         map[string]*GhostVar
	specFuncs      map[string]*SpecFunc
	specOrder      []string
	lemmas         map[string]*Lemma
	errs           []string
	constIDs       map[string]int
	files          map[*token.File]*ast.File
	srcCache       map[string][]byte
	specSMT        string
	specDefs       map[string]string
	trustedPure    map[string]bool
	freshOverrides map[string]*freshOverride
	immMu          sync.Mutex
	immutables     map[string]*immutableDecl
	macros         map[string]*Macro
	curProp        string            // property being checked ("" in development mode: every clause)
	specConsts     map[string]string // constant strings used by spec functions: content -> ref
	specConstList  []string
	mutated        map[string]bool // globals assigned outside init
	mutScan        bool
	repo           string
}

func (w *World) constID(key string) int {
	if id, ok := w.constIDs[key]; ok {
		return id
	}
	id := len(w.constIDs) + 1
	w.constIDs[key] = id
	return id
}

func loadWorld(repo string, patterns []string) (*World, error) {
	w := &World{contracts: map[string]*Contract{}, ghosts: map[string]*GhostVar{}, specFuncs: map[string]*SpecFunc{},
		lemmas: map[string]*Lemma{}, constIDs: map[string]int{}, files: map[*token.File]*ast.File{},
		srcCache: map[string][]byte{}, allPkgs: map[string]*packages.Package{}, repo: repo, trustedPure: map[string]bool{}, freshOverrides: map[string]*freshOverride{}, immutables: map[string]*immutableDecl{}, macros: map[string]*Macro{}, specConsts: map[string]string{}}
	w.fset = token.NewFileSet()
	cfg := &packages.Config{Mode: packages.LoadAllSyntax, Dir: repo, BuildFlags: []string{"-tags=verif"}, Fset: w.fset,
		Env: append(os.Environ(), "GOFLAGS=-mod=mod", "GOPROXY=off", "GOSUMDB=off", "GOTOOLCHAIN=local")}
	pkgs, err := packages.Load(cfg, patterns...)
	if err != nil {
		return nil, err
	}
	var loadErrs []string
	packages.Visit(pkgs, nil, func(p *packages.Package) {
		w.allPkgs[p.PkgPath] = p
		for _, e := range p.Errors {
			loadErrs = append(loadErrs, e.Error())
		}
		for _, f := range p.Syntax {
			w.files[w.fset.File(f.Pos())] = f
		}
	})
	if len(loadErrs) > 0 {
		return nil, fmt.Errorf("package load errors: %s", strings.Join(loadErrs, "; "))
	}
	w.pkgs = pkgs
	prog, _ := ssautil.AllPackages(pkgs, ssa.GlobalDebug)
	prog.Build()
	w.prog = prog
	// contracts: every file named *_verif.go in module packages, ghosts first
	var cfiles []struct {
		p *packages.Package
		f *ast.File
	}
	for _, p := range w.allPkgs {
		for _, f := range p.Syntax {
			name := w.fset.Position(f.Pos()).Filename
			if strings.HasSuffix(name, "_verif.go") {
				cfiles = append(cfiles, struct {
					p *packages.Package
					f *ast.File
				}{p, f})
			}
		}
	}
	sort.Slice(cfiles, func(i, j int) bool {
		return w.fset.Position(cfiles[i].f.Pos()).Filename < w.fset.Position(cfiles[j].f.Pos()).Filename
	})
	// first pass: ghost declarations (so that modifies clauses can name them)
	for _, cf := range cfiles {
		for _, cg := range cf.f.Comments {
			for _, c := range cg.List {
				t := strings.TrimSpace(strings.TrimPrefix(c.Text, "//@"))
				if strings.HasPrefix(c.Text, "//@") && (strings.HasPrefix(t, "ghost var ") || strings.HasPrefix(t, "ghost field ")) {
					fs := strings.Fields(t)
					if len(fs) >= 4 {
						g := &GhostVar{Name: fs[2], Sort: "Int", Init: "0"}
						if fs[3] == "bool" {
							g.Sort = "Bool"
							g.Init = "false"
						}
						if fs[3] == "array" {
							g.Sort = "(Array Int Int)"
							g.Init = "((as const (Array Int Int)) 0)"
						}
						if fs[1] == "field" && strings.Count(g.Name, ".") == 1 && !strings.HasPrefix(g.Name, "*.") {
							g.Name = cf.p.Types.Name() + "." + g.Name
						}
						w.ghosts[g.Name] = g
					}
				}
			}
		}
	}
	for _, cf := range cfiles {
		w.parseContractFile(cf.p.Types, cf.f, w.fset)
	}
	if len(w.errs) > 0 {
		return nil, fmt.Errorf("contract errors:\n  %s", strings.Join(w.errs, "\n  "))
	}
	if err := w.compileSpecFuncs(); err != nil {
		return nil, err
	}
	return w, nil
}

func (w *World) addContract(c *Contract) {
	if _, dup := w.contracts[c.Key]; dup {
		w.errs = append(w.errs, fmt.Sprintf("%s:%d: duplicate contract for %s", c.File, c.Line, c.Key))
		return
	}
	w.contracts[c.Key] = c
	w.conOrder = append(w.conOrder, c.Key)
}

// resolvePkgName maps a package name, as used in a contract file, to an import path.
func (w *World) resolvePkgName(from *types.Package, name string) string {
	if name == "builtin" {
		return "builtin" // universe types: builtin.error.Error
	}
	if from.Name() == name {
		return from.Path()
	}
	var cands []string
	for path, p := range w.allPkgs {
		if p.Name == name {
			cands = append(cands, path)
		}
	}
	// prefer direct imports of the contract file's package
	for _, imp := range from.Imports() {
		if imp.Name() == name {
			return imp.Path()
		}
	}
	sort.Strings(cands)
	// prefer stdlib / shortest path
	best := ""
	for _, c := range cands {
		if best == "" || len(c) < len(best) {
			best = c
		}
	}
	return best
}

// funcKey: contract lookup key of an SSA function.
func funcKey(fn *ssa.Function) string {
	if fn.Pkg == nil {
		if fn.Signature.Recv() != nil {
			// wrapper / method of instantiated type
			return ""
		}
		return ""
	}
	path := fn.Pkg.Pkg.Path()
	if recv := fn.Signature.Recv(); recv != nil {
		t := recv.Type()
		if p, ok := t.(*types.Pointer); ok {
			t = p.Elem()
		}
		if n, ok := t.(*types.Named); ok {
			return path + "." + n.Obj().Name() + "." + fn.Name()
		}
		return ""
	}
	if fn.Parent() != nil {
		// closures: Name() is parent$N; key is the parent's key plus the $N suffix
		pk := funcKey(fn.Parent())
		if pk == "" {
			return ""
		}
		return pk + strings.TrimPrefix(fn.Name(), fn.Parent().Name())
	}
	return path + "." + fn.Name()
}

func (w *World) contractFor(fn *ssa.Function) *Contract {
	k := funcKey(fn)
	if k == "" {
		return nil
	}
	if c := w.contracts[k]; c != nil {
		return c
	}
	if fn.Pkg != nil {
		path := fn.Pkg.Pkg.Path()
		pure := w.trustedPure[path] && fn.Signature.Recv() == nil
		if recv := fn.Signature.Recv(); recv != nil {
			t := recv.Type()
			if p, ok := t.(*types.Pointer); ok {
				t = p.Elem()
			}
			if n, ok := t.(*types.Named); ok && w.trustedPure[path+"."+n.Obj().Name()] {
				pure = true
			}
		}
		if pure {
			c := &Contract{Kind: "extern", Key: k, Name: fn.Name(), PkgPath: path, Pkg: fn.Pkg.Pkg, Trusted: true, Pure: true}
			w.contracts[k] = c
			return c
		}
	}
	return nil
}

// ifaceContract: contract of an interface method call.
func (w *World) ifaceContract(c *ssa.CallCommon) *Contract {
	if !c.IsInvoke() {
		return nil
	}
	t := c.Value.Type()
	return w.ifaceContractFor(t, c.Method)
}

func (w *World) ifaceContractFor(t types.Type, m *types.Func) *Contract {
	if n, ok := t.(*types.Named); ok && n.Obj().Pkg() != nil {
		k := n.Obj().Pkg().Path() + "." + n.Obj().Name()
		if w.trustedPure[k] {
			ck := k + "." + m.Name()
			if c := w.contracts[ck]; c != nil {
				return c
			}
			c := &Contract{Kind: "interface", Key: ck, Name: m.Name(), PkgPath: n.Obj().Pkg().Path(), Pkg: n.Obj().Pkg(), Trusted: true, Pure: true}
			w.contracts[ck] = c
			return c
		}
	}
	if n, ok := t.(*types.Named); ok && n.Obj().Pkg() != nil {
		if c := w.contracts[n.Obj().Pkg().Path()+"."+n.Obj().Name()+"."+m.Name()]; c != nil {
			return c
		}
	} else if n, ok := t.(*types.Named); ok && n.Obj().Pkg() == nil {
		// universe type: error
		if c := w.contracts["builtin."+n.Obj().Name()+"."+m.Name()]; c != nil {
			return c
		}
	}
	// embedded interfaces: look for the interface that declares the method
	if m.Pkg() != nil {
		if sig, ok := m.Type().(*types.Signature); ok && sig.Recv() != nil {
			if rn, ok := sig.Recv().Type().(*types.Named); ok && rn.Obj().Pkg() != nil {
				if c := w.contracts[rn.Obj().Pkg().Path()+"."+rn.Obj().Name()+"."+m.Name()]; c != nil {
					return c
				}
			}
		}
	}
	return nil
}

// findFunc locates the SSA function for a contract key.
func (w *World) findFunc(c *Contract) *ssa.Function {
	p := w.allPkgs[c.PkgPath]
	if p == nil {
		return nil
	}
	sp := w.prog.Package(p.Types)
	if sp == nil {
		return nil
	}
	parts := strings.Split(c.Name, ".")
	switch len(parts) {
	case 1:
		if f := sp.Func(parts[0]); f != nil {
			return f
		}
		// closure: Parent$N
		if i := strings.Index(parts[0], "$"); i > 0 {
			if parent := sp.Func(parts[0][:i]); parent != nil {
				for _, an := range parent.AnonFuncs {
					if an.Name() == parts[0] {
						return an
					}
				}
			}
		}
	case 2:
		tn, ok := sp.Pkg.Scope().Lookup(parts[0]).(*types.TypeName)
		if !ok {
			return nil
		}
		mname := parts[1]
		anon := ""
		if i := strings.Index(mname, "$"); i > 0 {
			anon = mname
			mname = mname[:i]
		}
		for _, T := range []types.Type{tn.Type(), types.NewPointer(tn.Type())} {
			ms := w.prog.MethodSets.MethodSet(T)
			for i := 0; i < ms.Len(); i++ {
				if ms.At(i).Obj().Name() == mname {
					f := w.prog.MethodValue(ms.At(i))
					if f != nil && f.Synthetic != "" {
						// wrapper for value-receiver method; get the declared one
						if decl := w.prog.FuncValue(ms.At(i).Obj().(*types.Func)); decl != nil {
							f = decl
						}
					}
					if f != nil && anon != "" {
						for _, an := range f.AnonFuncs {
							if an.Name() == anon {
								return an
							}
						}
						return nil
					}
					if f != nil {
						return f
					}
				}
			}
		}
	}
	return nil
}

// intrinsic: functions with built-in semantics.
func (w *World) intrinsic(fn *ssa.Function) string {
	if fn.Pkg == nil {
		return ""
	}
	switch fn.Pkg.Pkg.Path() + "." + fn.Name() {
	case "github.com/cloudwego/hertz/internal/bytesconv.B2s":
		return "b2s"
	case "github.com/cloudwego/hertz/internal/bytesconv.S2b":
		return "s2b"
	}
	return ""
}

// inlinable: small, loop-free, non-recursive functions of the module without a contract.
func (w *World) inlinable(fn *ssa.Function, depth int) bool {
	if fn == nil || len(fn.Blocks) == 0 || depth > 4 {
		return false
	}
	if fn.Pkg != nil && !strings.HasPrefix(fn.Pkg.Pkg.Path(), "github.com/cloudwego/hertz") {
		return false
	}
	if fn.Pkg == nil && fn.Parent() == nil {
		return false
	}
	n := 0
	for _, b := range fn.Blocks {
		n += len(b.Instrs)
		for _, ins := range b.Instrs {
			if c, ok := ins.(*ssa.Call); ok {
				if c.Call.StaticCallee() == fn {
					return false
				}
			}
		}
	}
	return n <= 250
}

func (w *World) fileOf(pos token.Pos) *ast.File {
	tf := w.fset.File(pos)
	if tf == nil {
		return nil
	}
	return w.files[tf]
}

func (w *World) srcText(from, to token.Pos) string {
	p1 := w.fset.Position(from)
	p2 := w.fset.Position(to)
	src, ok := w.srcCache[p1.Filename]
	if !ok {
		src, _ = os.ReadFile(p1.Filename)
		w.srcCache[p1.Filename] = src
	}
	if p1.Offset < 0 || p2.Offset > len(src) || p1.Offset > p2.Offset {
		return "?"
	}
	return string(src[p1.Offset:p2.Offset])
}

// ---------------------------------------------------------------------------
// Package-level variables that are never assigned after initialisation
// ---------------------------------------------------------------------------

func (w *World) scanMutated() {
	if w.mutScan {
		return
	}
	w.mutScan = true
	w.mutated = map[string]bool{}
	for fn := range ssautil.AllFunctions(w.prog) {
		if fn.Pkg == nil || fn.Name() == "init" && fn.Parent() == nil {
			continue
		}
		if strings.HasPrefix(fn.Name(), "init#") {
			continue
		}
		for _, b := range fn.Blocks {
			for _, ins := range b.Instrs {
				for _, op := range ins.Operands(nil) {
					g, ok := (*op).(*ssa.Global)
					if !ok {
						continue
					}
					// reading through *g is fine; anything else (store, address escaping) marks it mutable
					switch x := ins.(type) {
					case *ssa.UnOp:
						if x.Op == token.MUL {
							continue
						}
					case *ssa.DebugRef:
						continue
					case *ssa.FieldAddr, *ssa.IndexAddr:
						// address of a part of the global: conservatively mutable unless only loaded
						continue
					}
					w.mutated[g.Pkg.Pkg.Path()+"."+g.Name()] = true
				}
			}
		}
	}
}

// constGlobal: value of an immutable package-level variable, when it can be determined.
func (w *World) constGlobal(e *Enc, g *ssa.Global) (Val, bool) {
	w.scanMutated()
	key := g.Pkg.Pkg.Path() + "." + g.Name()
	if w.mutated[key] {
		return Val{}, false
	}
	t := g.Type().Underlying().(*types.Pointer).Elem()
	e.note("package-level variable " + g.Pkg.Pkg.Name() + "." + g.Name() + " is never assigned after initialisation (checked syntactically)")
	// look for the initialiser
	p := w.allPkgs[g.Pkg.Pkg.Path()]
	var init ast.Expr
	if p != nil {
		for _, f := range p.Syntax {
			for _, d := range f.Decls {
				gd, ok := d.(*ast.GenDecl)
				if !ok || gd.Tok != token.VAR {
					continue
				}
				for _, sp := range gd.Specs {
					vs := sp.(*ast.ValueSpec)
					for i, n := range vs.Names {
						if n.Name == g.Name() && len(vs.Values) == len(vs.Names) {
							init = vs.Values[i]
						}
					}
				}
			}
		}
	}
	switch kindOfType(t) {
	case KSlc:
		if init != nil {
			if s, ok := w.constString(p, init); ok {
				return Val{K: KSlc, T: e.strConstSlc(s), Ty: t}, true
			}
		}
		// unknown but fixed content
		id := w.constID("gslc:" + key)
		name := sym(fmt.Sprintf("GC!%s", key))
		e.declare(name, "Slc")
		e.axiom(sAnd(sEq(slcArr(name), sInt(-int64(id))), sEq(slcOff(name), "0"), sApp("<=", "0", slcLen(name)), sApp("<=", slcLen(name), slcCap(name)), sApp("<=", slcCap(name), maxAlloc)))
		return Val{K: KSlc, T: name, Ty: t}, true
	case KRef:
		if _, isIface := t.Underlying().(*types.Interface); isIface {
			id := w.constID("gref:" + key)
			return Val{K: KRef, T: sInt(-int64(id)), Ty: t}, true
		}
		if _, isPtr := t.Underlying().(*types.Pointer); isPtr && init != nil {
			id := w.constID("gref:" + key)
			return Val{K: KRef, T: sInt(-int64(id)), Ty: t}, true
		}
	case KInt:
		if init != nil && p != nil {
			if tv, ok := p.TypesInfo.Types[init]; ok && tv.Value != nil && tv.Value.Kind() == constant.Int {
				if n, ok := constant.Int64Val(tv.Value); ok {
					return Val{K: KInt, T: sInt(n), Ty: t}, true
				}
			}
		}
		name := sym(fmt.Sprintf("GC!%s", key))
		e.declare(name, "Int")
		if ii, ok := intInfoOf(t); ok {
			e.axiom(ii.rangeOf(name))
		}
		return Val{K: KInt, T: name, Ty: t}, true
	case KBool:
		name := sym(fmt.Sprintf("GC!%s", key))
		e.declare(name, "Bool")
		return Val{K: KBool, T: name, Ty: t}, true
	}
	return Val{}, false
}

// constString evaluates []byte("..."), string constants and []byte(constName).
func (w *World) constString(p *packages.Package, e ast.Expr) (string, bool) {
	if p == nil {
		return "", false
	}
	if tv, ok := p.TypesInfo.Types[e]; ok && tv.Value != nil && tv.Value.Kind() == constant.String {
		return constant.StringVal(tv.Value), true
	}
	if call, ok := e.(*ast.CallExpr); ok && len(call.Args) == 1 {
		if tv, ok := p.TypesInfo.Types[call.Fun]; ok && tv.IsType() {
			return w.constString(p, call.Args[0])
		}
	}
	if pe, ok := e.(*ast.ParenExpr); ok {
		return w.constString(p, pe.X)
	}
	return "", false
}

// zeroGlobal: package-level variable declared without initialiser and never assigned.
func (w *World) zeroGlobal(g *ssa.Global) bool {
	w.scanMutated()
	key := g.Pkg.Pkg.Path() + "." + g.Name()
	if w.mutated[key] {
		return false
	}
	p := w.allPkgs[g.Pkg.Pkg.Path()]
	if p == nil {
		return false
	}
	for _, f := range p.Syntax {
		for _, d := range f.Decls {
			gd, ok := d.(*ast.GenDecl)
			if !ok || gd.Tok != token.VAR {
				continue
			}
			for _, sp := range gd.Specs {
				vs := sp.(*ast.ValueSpec)
				for _, n := range vs.Names {
					if n.Name == g.Name() {
						return len(vs.Values) == 0
					}
				}
			}
		}
	}
	return false
}

// ---------------------------------------------------------------------------
// immutable fields
// ---------------------------------------------------------------------------

type immutableDecl struct {
	Key, Reason string
	checked, ok bool
	why         string
}

// immutableOK: is the heap component a field declared immutable, and does the module bear that out? The check
// is syntactic over the SSA of every function of the loaded program: a store to the field, or a store of a whole
// value of its struct type, is allowed only when the target object is an allocation of the same function (the
// object under construction). reflect/unsafe writes and struct values embedded by value in other structs are
// outside the check (stated in the evidence). A violated declaration is ignored (the field is havocked like any
// other), so the obligations that relied on it fail.
func (w *World) immutableOK(comp string) (bool, *immutableDecl) {
	if !strings.HasPrefix(comp, "F:") {
		return false, nil
	}
	d, ok := w.immutables[strings.TrimPrefix(comp, "F:")]
	if !ok {
		return false, nil
	}
	w.immMu.Lock()
	defer w.immMu.Unlock()
	if d.checked {
		return d.ok, d
	}
	d.checked, d.ok = true, true
	i := strings.LastIndex(d.Key, ".")
	tkey, fname := d.Key[:i], d.Key[i+1:]
	fresh := func(v ssa.Value) bool {
		_, ok := v.(*ssa.Alloc)
		return ok
	}
	found := false
	for fn := range ssautil.AllFunctions(w.prog) {
		for _, b := range fn.Blocks {
			for _, ins := range b.Instrs {
				st, ok := ins.(*ssa.Store)
				if !ok {
					continue
				}
				if fa, ok := st.Addr.(*ssa.FieldAddr); ok {
					if pt, ok := fa.X.Type().Underlying().(*types.Pointer); ok && structKey(pt.Elem()) == tkey {
						if stt, ok := pt.Elem().Underlying().(*types.Struct); ok && stt.Field(fa.Field).Name() == fname {
							found = true
							if !fresh(fa.X) {
								d.ok, d.why = false, "written in "+fn.String()+" at "+w.fset.Position(st.Pos()).String()
							}
						}
					}
				}
				if structKey(st.Val.Type()) == tkey && !fresh(st.Addr) {
					if _, isStruct := st.Val.Type().Underlying().(*types.Struct); isStruct {
						d.ok, d.why = false, "whole value overwritten in "+fn.String()+" at "+w.fset.Position(st.Pos()).String()
					}
				}
			}
		}
	}
	if !found && d.ok {
		d.ok, d.why = false, "no such field is written anywhere (misspelt declaration?)"
	}
	return d.ok, d
}
