package main

import (
	"fmt"
	"strings"
)

// Minimal s-expression support for polarity-aware skolemisation of goals.

type sx struct {
	atom string
	list []*sx
}

func parseSx(s string) (*sx, error) {
	p := &sxParser{s: s}
	x := p.parse()
	if p.err != nil {
		return nil, p.err
	}
	return x, nil
}

type sxParser struct {
	s   string
	i   int
	err error
}

func (p *sxParser) skip() {
	for p.i < len(p.s) && (p.s[p.i] == ' ' || p.s[p.i] == '\n' || p.s[p.i] == '\t') {
		p.i++
	}
}

func (p *sxParser) parse() *sx {
	p.skip()
	if p.i >= len(p.s) {
		p.err = fmt.Errorf("unexpected end")
		return nil
	}
	if p.s[p.i] == '(' {
		p.i++
		x := &sx{list: []*sx{}}
		for {
			p.skip()
			if p.i >= len(p.s) {
				p.err = fmt.Errorf("unbalanced")
				return nil
			}
			if p.s[p.i] == ')' {
				p.i++
				return x
			}
			c := p.parse()
			if p.err != nil {
				return nil
			}
			x.list = append(x.list, c)
		}
	}
	start := p.i
	if p.s[p.i] == '|' {
		p.i++
		for p.i < len(p.s) && p.s[p.i] != '|' {
			p.i++
		}
		p.i++
		return &sx{atom: p.s[start:p.i]}
	}
	for p.i < len(p.s) && !strings.ContainsRune(" \n\t()", rune(p.s[p.i])) {
		p.i++
	}
	return &sx{atom: p.s[start:p.i]}
}

func (x *sx) String() string {
	if x.list == nil {
		return x.atom
	}
	var b strings.Builder
	x.write(&b)
	return b.String()
}

func (x *sx) write(b *strings.Builder) {
	if x.list == nil {
		b.WriteString(x.atom)
		return
	}
	b.WriteByte('(')
	for i, c := range x.list {
		if i > 0 {
			b.WriteByte(' ')
		}
		c.write(b)
	}
	b.WriteByte(')')
}

func (x *sx) head() string {
	if x.list != nil && len(x.list) > 0 && x.list[0].list == nil {
		return x.list[0].atom
	}
	return ""
}

func (x *sx) subst(m map[string]string) *sx {
	if x.list == nil {
		if r, ok := m[x.atom]; ok {
			return &sx{atom: r}
		}
		return x
	}
	n := &sx{list: make([]*sx, len(x.list))}
	for i, c := range x.list {
		n.list[i] = c.subst(m)
	}
	return n
}

// skolemize replaces universally quantified subformulas in positive position
// (and existential ones in negative position) of a goal by instances with
// fresh constants. decl receives the new constants. The result implies the
// original goal's validity: proving it for arbitrary constants proves the goal.
func skolemize(goal string, fresh func() string) (string, []string) {
	x, err := parseSx(goal)
	if err != nil {
		return goal, nil
	}
	var decls []string
	var walk func(x *sx, pos bool) *sx
	walk = func(x *sx, pos bool) *sx {
		if x.list == nil {
			return x
		}
		switch x.head() {
		case "and", "or":
			n := &sx{list: []*sx{x.list[0]}}
			for _, c := range x.list[1:] {
				n.list = append(n.list, walk(c, pos))
			}
			return n
		case "not":
			if len(x.list) == 2 {
				return &sx{list: []*sx{x.list[0], walk(x.list[1], !pos)}}
			}
		case "=>":
			n := &sx{list: []*sx{x.list[0]}}
			for i, c := range x.list[1:] {
				if i == len(x.list)-2 {
					n.list = append(n.list, walk(c, pos))
				} else {
					n.list = append(n.list, walk(c, !pos))
				}
			}
			return n
		case "ite":
			if len(x.list) == 4 {
				return &sx{list: []*sx{x.list[0], x.list[1], walk(x.list[2], pos), walk(x.list[3], pos)}}
			}
		case "forall", "exists":
			if (x.head() == "forall") == pos && len(x.list) == 3 {
				m := map[string]string{}
				for _, b := range x.list[1].list {
					if len(b.list) == 2 {
						c := fresh()
						decls = append(decls, fmt.Sprintf("(declare-fun %s () %s)", c, b.list[1].String()))
						m[b.list[0].atom] = c
					}
				}
				body := x.list[2]
				if body.head() == "!" && len(body.list) >= 2 {
					body = body.list[1]
				}
				return walk(body.subst(m), pos)
			}
		}
		return x
	}
	r := walk(x, true)
	return r.String(), decls
}

// hasQuantifier: does an assertion contain a quantifier?
func hasQuantifier(s string) bool {
	return strings.Contains(s, "(forall ") || strings.Contains(s, "(exists ")
}

// ---------------------------------------------------------------------------
// Linear normalisation of integer terms built with + and -: keeps index terms
// canonical so that quantifier triggers see the bound variable itself.
// ---------------------------------------------------------------------------

func linNormalize(t string) string {
	if !strings.HasPrefix(t, "(+ ") && !strings.HasPrefix(t, "(- ") {
		return t
	}
	x, err := parseSx(t)
	if err != nil {
		return t
	}
	coef := map[string]int64{}
	var order []string
	var konst int64
	ok := true
	var walk func(x *sx, sign int64)
	walk = func(x *sx, sign int64) {
		if x.list == nil {
			var n int64
			if _, err := fmt.Sscanf(x.atom, "%d", &n); err == nil && fmt.Sprint(n) == x.atom {
				konst += sign * n
				return
			}
			if _, seen := coef[x.atom]; !seen {
				order = append(order, x.atom)
			}
			coef[x.atom] += sign
			return
		}
		switch x.head() {
		case "+":
			for _, c := range x.list[1:] {
				walk(c, sign)
			}
			return
		case "-":
			if len(x.list) == 2 {
				walk(x.list[1], -sign)
				return
			}
			walk(x.list[1], sign)
			for _, c := range x.list[2:] {
				walk(c, -sign)
			}
			return
		}
		s := x.String()
		if _, seen := coef[s]; !seen {
			order = append(order, s)
		}
		coef[s] += sign
	}
	walk(x, 1)
	if !ok {
		return t
	}
	var pos, neg []string
	for _, a := range order {
		c := coef[a]
		switch {
		case c == 0:
		case c == 1:
			pos = append(pos, a)
		case c == -1:
			neg = append(neg, a)
		case c > 1:
			pos = append(pos, fmt.Sprintf("(* %d %s)", c, a))
		default:
			neg = append(neg, fmt.Sprintf("(* %d %s)", -c, a))
		}
	}
	if konst > 0 {
		pos = append(pos, fmt.Sprint(konst))
	} else if konst < 0 {
		neg = append(neg, fmt.Sprint(-konst))
	}
	var p string
	switch len(pos) {
	case 0:
		p = "0"
	case 1:
		p = pos[0]
	default:
		p = "(+ " + strings.Join(pos, " ") + ")"
	}
	if len(neg) == 0 {
		return p
	}
	if len(pos) == 0 && len(neg) == 1 {
		return "(- " + neg[0] + ")"
	}
	return "(- " + p + " " + strings.Join(neg, " ") + ")"
}
