#!/bin/sh
# Must-fail / must-pass corpus. Every seeded change (seeded/*/patch.diff) is applied to a scratch
# worktree of /repo (outside /repo and /verif) and must make its property's check report a VIOLATION;
# every benign edit (selftest/benign/*.diff, first line "# props: Cxx ...") must leave the named checks green.
cd "$(dirname "$0")/.." || exit 2
export GOFLAGS=-mod=vendor GOPROXY=off GOSUMDB=off GOTOOLCHAIN=local CGO_ENABLED=0
[ -x bin/vcgo ] || go build -o bin/vcgo ./cmd/vcgo || exit 2
only=""
[ "$1" = "--only" ] && only=$2
fail=0
tmp=$(mktemp -d /tmp/vcgo-selftest.XXXXXX)
run_one() { # patch props expect(1=violation,0=green) label
  patch=$1; props=$2; expect=$3; label=$4
  wt=$tmp/wt
  ok=0
  for try in 1 2 3 4 5 6; do
    if git -C /repo worktree add -q --detach "$wt" HEAD 2>/dev/null; then ok=1; break; fi
    sleep 1; git -C /repo worktree prune 2>/dev/null
  done
  [ $ok = 1 ] || { echo "cannot create worktree"; fail=1; return; }
  if ! (cd "$wt" && git apply "$patch"); then echo "SELFTEST-ERROR $label: patch does not apply"; fail=1
  else
    for p in $props; do
      mkdir -p "$tmp/verif"; cp known_findings.json "$tmp/verif/" 2>/dev/null
      ./bin/vcgo check "$p" --repo "$wt" --verif "$tmp/verif" > "$tmp/out.txt" 2>&1; rc=$?
      if [ "$expect" = 1 ]; then
        if [ $rc -eq 1 ] && grep -q "^VIOLATION property=$p " "$tmp/out.txt"; then echo "ok   must-fail $label: $p reports $(grep -c '^VIOLATION' "$tmp/out.txt") violation(s)"
        else echo "MISS must-fail $label: $p exit=$rc"; fail=1; fi
      else
        if [ $rc -eq 0 ]; then echo "ok   must-pass $label: $p green"
        else echo "FALSE-ALARM must-pass $label: $p exit=$rc: $(grep '^VIOLATION' "$tmp/out.txt" | head -2)"; fail=1; fi
      fi
    done
  fi
  git -C /repo worktree remove --force "$wt"; rm -rf "$wt" "$tmp/verif"
}
# SELFTEST_JOBS=n runs the must-fail part in n shards side by side (each with its own scratch directory); the
# default is one after the other
jobs=${SELFTEST_JOBS:-1}
if [ "$jobs" -gt 1 ] && [ -z "$SELFTEST_SHARD" ]; then
  pids=""
  for k in $(seq 0 $((jobs-1))); do
    SELFTEST_SHARD=$k SELFTEST_JOBS=$jobs SELFTEST_NOBENIGN=1 "$0" "$@" > "$tmp/shard$k.log" 2>&1 &
    pids="$pids $!"
  done
  for pid in $pids; do wait $pid || fail=1; done
  cat "$tmp"/shard*.log | grep -v "^selftest:"
else
i=0
for d in seeded/*/; do
  [ -f "$d/patch.diff" ] || continue
  prop=$(python3 -c "import json,sys; print(json.load(open('$d/meta.json'))['property'])")
  [ -n "$only" ] && [ "$prop" != "$only" ] && continue
  i=$((i+1))
  if [ -n "$SELFTEST_SHARD" ] && [ $((i % jobs)) -ne "$SELFTEST_SHARD" ]; then continue; fi
  run_one "$PWD/$d/patch.diff" "$prop" 1 "$(basename $d)"
done
fi
if [ -n "$SELFTEST_NOBENIGN" ]; then rm -rf "$tmp"; [ $fail -eq 0 ] && echo "selftest: shard ok" || echo "selftest: shard FAILED"; exit $fail; fi
for f in selftest/benign/*.diff; do
  [ -f "$f" ] || continue
  props=$(head -1 "$f" | sed -n 's/^# props: //p')
  if [ -n "$only" ]; then case " $props " in *" $only "*) props=$only ;; *) continue ;; esac; fi
  run_one "$PWD/$f" "$props" 0 "$(basename $f)"
done
rm -rf "$tmp"
[ $fail -eq 0 ] && echo "selftest: all expectations met" || echo "selftest: FAILED"
exit $fail
