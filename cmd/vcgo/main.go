package main

import (
	"flag"
	"fmt"
	"io/fs"
	"os"
	"path/filepath"
	"sort"
	"strings"
	"time"
)

// contractDirsFor: only the packages whose contract file tags a function with the property;
// contract files of their dependencies are loaded with them.
func contractDirsFor(repo, prop string) []string {
	var out []string
	for _, d := range contractDirs(repo) {
		entries, _ := os.ReadDir(filepath.Join(repo, d))
		hit := false
		for _, en := range entries {
			if !strings.HasSuffix(en.Name(), "_verif.go") {
				continue
			}
			data, _ := os.ReadFile(filepath.Join(repo, d, en.Name()))
			for _, l := range strings.Split(string(data), "\n") {
				l = strings.TrimSpace(strings.TrimPrefix(strings.TrimSpace(l), "//@"))
				if strings.HasPrefix(l, "props ") {
					for _, f := range strings.Fields(strings.ReplaceAll(l[6:], ",", " ")) {
						if f == prop {
							hit = true
						}
					}
				}
			}
		}
		if hit {
			out = append(out, d)
		}
	}
	return out
}

func contractDirs(repo string) []string {
	seen := map[string]bool{}
	filepath.WalkDir(repo, func(p string, d fs.DirEntry, err error) error {
		if err != nil {
			return nil
		}
		if d.IsDir() && (d.Name() == ".git" || d.Name() == "testdata" || d.Name() == "node_modules") {
			return filepath.SkipDir
		}
		if !d.IsDir() && strings.HasSuffix(d.Name(), "_verif.go") {
			rel, _ := filepath.Rel(repo, filepath.Dir(p))
			seen["./"+rel] = true
		}
		return nil
	})
	var out []string
	for k := range seen {
		out = append(out, k)
	}
	sort.Strings(out)
	return out
}

func main() {
	if len(os.Args) < 2 {
		fmt.Fprintln(os.Stderr, "usage: vcgo func|check|list ...")
		os.Exit(2)
	}
	switch os.Args[1] {
	case "func":
		cmdFunc(os.Args[2:])
	case "check":
		rc := cmdCheck(os.Args[2:])
		if workDir != "" {
			os.RemoveAll(workDir)
		}
		os.Exit(rc)
	case "list":
		cmdList(os.Args[2:])
	default:
		fmt.Fprintln(os.Stderr, "unknown command", os.Args[1])
		os.Exit(2)
	}
	if workDir != "" {
		os.RemoveAll(workDir)
	}
}

func mustLoad(repo string) *World {
	dirs := contractDirs(repo)
	if len(dirs) == 0 {
		fmt.Fprintln(os.Stderr, "no contract files (*_verif.go) found under", repo)
		os.Exit(2)
	}
	w, err := loadWorld(repo, dirs)
	if err != nil {
		fmt.Fprintln(os.Stderr, "load:", err)
		os.Exit(2)
	}
	return w
}

func cmdList(args []string) {
	fl := flag.NewFlagSet("list", flag.ExitOnError)
	repo := fl.String("repo", "/repo", "repository")
	fl.Parse(args)
	w := mustLoad(*repo)
	for _, k := range w.conOrder {
		c := w.contracts[k]
		fmt.Printf("%-10s %s props=%v\n", c.Kind, k, c.Props)
	}
}

// cmdFunc: development entry point; verify the named contracts and print every verdict.
func cmdFunc(args []string) {
	fl := flag.NewFlagSet("func", flag.ExitOnError)
	repo := fl.String("repo", "/repo", "repository")
	timeout := fl.Int("timeout", 10, "seconds per obligation")
	jobs := fl.Int("j", 16, "parallel solver jobs")
	keep := fl.String("keep", "", "directory for SMT files of undischarged obligations")
	verbose := fl.Bool("v", false, "print every obligation")
	propFlag := fl.String("prop", "", "check as this property (clauses tagged for other properties are skipped)")
	fl.Parse(args)
	t0 := time.Now()
	w := mustLoad(*repo)
	w.curProp = *propFlag
	fmt.Printf("loaded in %.1fs, %d contracts\n", time.Since(t0).Seconds(), len(w.contracts))
	var frs []*FuncResult
	for _, pat := range fl.Args() {
		n := 0
		for _, k := range w.conOrder {
			c := w.contracts[k]
			if c.Kind != "func" {
				continue
			}
			if strings.HasSuffix(k, pat) || pat == "all" {
				n++
				fr := w.verifyFunc(c)
				frs = append(frs, fr)
			}
		}
		if n == 0 {
			fmt.Println("no contract matches", pat)
		}
	}
	vs := runAll(frs, *timeout, *jobs, *keep)
	bad := 0
	for _, fr := range frs {
		if fr.Err != "" {
			fmt.Printf("ERROR %s: %s\n", fr.Key, fr.Err)
			bad++
		}
	}
	for _, v := range vs {
		ok := v.Status == "unsat"
		if v.Obl.Canary {
			ok = v.Status != "unsat"
		}
		if v.Obl.Smoke {
			ok = v.Status != "unsat"
		}
		if !ok {
			bad++
		}
		if *verbose || !ok {
			tag := "ok  "
			if !ok {
				tag = "FAIL"
			}
			fmt.Printf("%s %-8s %-10s %6.2fs %7dB %s\n", tag, v.Status, v.Solver, v.Time, v.Size, v.Obl.Name)
			if !ok && v.Model != nil {
				printModel(v)
			}
			if !ok && v.Obl.RetPos.IsValid() {
				fmt.Println("     at return:", w.fset.Position(v.Obl.RetPos))
			}
			if !ok && v.SMTFile != "" {
				fmt.Println("     smt:", v.SMTFile)
			}
			if v.Status == "error" {
				fmt.Println("     output:", firstLines(v.Output, 3))
			}
		}
	}
	fmt.Printf("%d obligations, %d not ok, %.1fs\n", len(vs), bad, time.Since(t0).Seconds())
}

func firstLines(s string, n int) string {
	ls := strings.Split(strings.TrimSpace(s), "\n")
	if len(ls) > n {
		ls = ls[:n]
	}
	return strings.Join(ls, " | ")
}

func printModel(v *Verdict) {
	for _, mv := range v.Fn.Enc.modelDesc {
		fmt.Printf("     %s = %s\n", mv.Name, modelValue(mv, v.Model))
	}
}

func modelValue(mv modelVar, m map[string]string) string {
	switch mv.Kind {
	case "int", "ref", "bool":
		return m[mv.Terms[0]]
	case "bytes", "string", "slice":
		ln, _ := smtIntValue(m[mv.Terms[0]])
		cp, _ := smtIntValue(m[mv.Terms[1]])
		var bs []byte
		for i := int64(0); i < ln && i < 48; i++ {
			b, _ := smtIntValue(m[mv.Terms[4+i]])
			bs = append(bs, byte(b))
		}
		return fmt.Sprintf("len=%d cap=%d arr=%s off=%s %q", ln, cp, m[mv.Terms[2]], m[mv.Terms[3]], bs)
	}
	return "?"
}
