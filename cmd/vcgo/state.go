package main

import (
	"fmt"
	"go/types"
	"sort"
	"strings"
)

// ---------------------------------------------------------------------------
// Values
// ---------------------------------------------------------------------------

type VKind int

const (
	KInt VKind = iota
	KBool
	KSlc      // slices and strings: SMT sort Slc
	KRef      // pointers to structs/arrays, interfaces, funcs, maps, chans: SMT Int
	KStruct   // struct value or tuple: Fs
	KPtrField // pointer to a scalar location: component F indexed by ref T
	KPtrElem  // pointer to an array element: array ref T, absolute index I
	KLocalObj // non-escaping local struct: fields are local components with prefix F
	KGArr     // ghost array (Array Int Int): T is the array term
	KUnit
)

type Val struct {
	K  VKind
	T  string
	I  string
	F  string
	Fs []Val
	Ty types.Type
}

func (v Val) String() string {
	switch v.K {
	case KStruct:
		var xs []string
		for _, f := range v.Fs {
			xs = append(xs, f.String())
		}
		return "{" + strings.Join(xs, ", ") + "}"
	case KPtrField:
		return "&" + v.F + "[" + v.T + "]"
	case KPtrElem:
		return "&elem(" + v.T + "," + v.I + ")"
	}
	return v.T
}

func vInt(t string) Val  { return Val{K: KInt, T: t} }
func vBool(t string) Val { return Val{K: KBool, T: t} }
func vSlc(t string) Val  { return Val{K: KSlc, T: t} }
func vRef(t string) Val  { return Val{K: KRef, T: t} }

func sortOfKind(k VKind) string {
	switch k {
	case KInt, KRef, KPtrField:
		return "Int"
	case KBool:
		return "Bool"
	case KSlc:
		return "Slc"
	}
	return ""
}

// kindOfType maps a Go type to the value kind used to represent it.
func kindOfType(t types.Type) VKind {
	switch u := t.Underlying().(type) {
	case *types.Basic:
		switch {
		case u.Info()&types.IsBoolean != 0:
			return KBool
		case u.Info()&types.IsString != 0:
			return KSlc
		case u.Kind() == types.UnsafePointer, u.Kind() == types.UntypedNil:
			return KRef
		default:
			return KInt // integers; floats are opaque Ints (only uninterpreted ops)
		}
	case *types.Slice:
		return KSlc
	case *types.Pointer:
		switch u.Elem().Underlying().(type) {
		case *types.Struct, *types.Array:
			return KRef
		}
		return KPtrField
	case *types.Struct:
		return KStruct
	case *types.Tuple:
		if u.Len() == 0 {
			return KUnit
		}
		return KStruct
	case *types.Array:
		return KRef // by-value arrays are only supported behind pointers
	}
	return KRef
}

func isFloat(t types.Type) bool {
	b, ok := t.Underlying().(*types.Basic)
	return ok && b.Info()&(types.IsFloat|types.IsComplex) != 0
}

// ---------------------------------------------------------------------------
// Heap state: named components with lazily materialised versions
// ---------------------------------------------------------------------------

type epochKind int

const (
	epEntry epochKind = iota
	epHavoc
	epMerge
	epLoop
)

type Epoch struct {
	id       int
	kind     epochKind
	from     *State            // havoc, loop: the pre-state
	keep     func(string) bool // havoc: components that survive
	preds    []*State          // merge
	guards   []string          // merge
	mod      *modSet           // loop
	memo     map[string]string
	enc      *Enc
	allocPre string // loop: alloc at loop entry
}

type State struct {
	ep    *Epoch
	ov    map[string]string
	reach string
}

func (s *State) clone() *State {
	n := &State{ep: s.ep, reach: s.reach, ov: make(map[string]string, len(s.ov))}
	for k, v := range s.ov {
		n.ov[k] = v
	}
	return n
}

func (s *State) get(name string) string {
	if t, ok := s.ov[name]; ok {
		return t
	}
	return s.ep.resolve(name)
}

func (s *State) set(name, term string) { s.ov[name] = term }

// modSet describes what a loop (or call) may modify.
type modSet struct {
	all     bool            // everything except ghost/local comps not listed
	comps   map[string]bool // whole components modified
	memArrs []string        // Mem: array refs (terms valid before the loop) that may be written; nil+memAll=false => Mem untouched
	memAll  bool
	mem     bool
	fieldAt map[string][]string // component -> refs written (terms valid before the loop); absent from comps
}

func newModSet() *modSet {
	return &modSet{comps: map[string]bool{}, fieldAt: map[string][]string{}}
}

func (m *modSet) names() []string {
	var xs []string
	for k := range m.comps {
		xs = append(xs, k)
	}
	for k := range m.fieldAt {
		xs = append(xs, k+"@")
	}
	sort.Strings(xs)
	if m.mem {
		xs = append(xs, "Mem")
	}
	if m.all {
		xs = append(xs, "*")
	}
	return xs
}

func (e *Epoch) resolve(name string) string {
	if t, ok := e.memo[name]; ok {
		return t
	}
	enc := e.enc
	srt := enc.compSort(name)
	fresh := func() string {
		c := sym(fmt.Sprintf("H%d!%s", e.id, name))
		enc.declare(c, srt)
		enc.onFreshComp(name, c)
		return c
	}
	var t string
	switch e.kind {
	case epEntry:
		t = fresh()
	case epHavoc:
		if e.keep != nil && e.keep(name) {
			t = e.from.get(name)
		} else {
			t = fresh()
			if name == "alloc" {
				enc.axiom(sApp("<=", e.from.get("alloc"), t))
			}
		}
	case epMerge:
		terms := make([]string, len(e.preds))
		same := true
		for i, p := range e.preds {
			terms[i] = p.get(name)
			if terms[i] != terms[0] {
				same = false
			}
		}
		if same {
			t = terms[0]
		} else {
			t = fresh()
			chain := terms[len(terms)-1]
			for i := len(terms) - 2; i >= 0; i-- {
				chain = sIte(e.guards[i], terms[i], chain)
			}
			enc.axiom(sEq(t, chain))
		}
	case epLoop:
		pre := e.from.get(name)
		m := e.mod
		switch {
		case name == "alloc":
			if m.all || m.comps["alloc"] {
				t = fresh()
				enc.axiom(sApp("<=", pre, t))
			} else {
				t = pre
			}
		case name == "Mem":
			if m.all || m.memAll {
				t = fresh()
			} else if m.mem {
				t = fresh()
				// frame: arrays allocated before the loop and not among the targets keep their contents
				conds := []string{sApp("<", "r", e.allocPre)}
				for _, a := range m.memArrs {
					conds = append(conds, sNot(sEq("r", a)))
				}
				enc.axiom(fmt.Sprintf("(forall ((r Int)) (! (=> %s (= (select %s r) (select %s r))) :pattern ((select %s r))))",
					sAnd(conds...), t, pre, t))
			} else {
				t = pre
			}
		case enc.isGhostOrLocal(name):
			if m.comps[name] {
				t = fresh()
			} else {
				t = pre
			}
		default:
			if m.all || m.comps[name] {
				t = fresh()
			} else if refs, ok := m.fieldAt[name]; ok {
				t = fresh()
				conds := []string{}
				for _, a := range refs {
					conds = append(conds, sNot(sEq("r", a)))
				}
				enc.axiom(fmt.Sprintf("(forall ((r Int)) (! (=> %s (= (select %s r) (select %s r))) :pattern ((select %s r))))",
					sAnd(conds...), t, pre, t))
			} else {
				t = pre
			}
		}
	}
	e.memo[name] = t
	return t
}
