package main

import (
	"fmt"
	"go/ast"
	"go/parser"
	"go/token"
	"go/types"
	"strconv"
	"strings"
)

// ---------------------------------------------------------------------------
// Contract files: //@ lines in comment-only Go files behind the build tag.
// ---------------------------------------------------------------------------

type Clause struct {
	Prop string // optional @Cxx tag: the obligation belongs to that property only
	Expr ast.Expr
	Src  string
	Top  bool
	File string
	Line int
	// Assumed: an `assumed-ensures` clause of a func contract - exported to callers, not checked against the body
	// (the part of the function's meaning the contracts cannot define); listed in the evidence
	Assumed bool
}

type modKind int

const (
	modField modKind = iota
	modBytes
	modGhost
	modSpare
	modMem  // all byte/scalar array memory
	modType // every object of a named struct type (Name = pkg.Type)
)

type ModItem struct {
	Kind modKind
	Name string   // ghost name
	Expr ast.Expr // field path or slice expression
	Src  string
	But  []ast.Expr // membut(a, b): all byte memory except the arrays of these slices
}

type LoopSpec struct {
	Invariants  []Clause
	Decreases   ast.Expr
	Modifies    []ModItem
	ModifiesAll bool
}

type CallAssert struct {
	Callee  string // callee name (as written in SSA: Name() of function or method)
	Ordinal int    // nth call of that callee in source order, -1 = all
	Clause  Clause
	After   bool
	Direct  bool // CALLEE! : only calls written in the function under contract itself, not in inlined callees
	Forbid  bool // `forbid CALLEE`: the function must not make such a call at all (no binding required)
}

type Contract struct {
	Kind          string // func, extern, interface, funcvalue
	Key           string // lookup key
	Name          string
	PkgPath       string
	Pkg           *types.Package
	Params        []string
	Results       []string
	Requires      []Clause
	Ensures       []Clause
	Modifies      []ModItem
	ModifiesAll   bool
	Allocates     bool
	PanicsAllowed bool
	Abstract      bool
	NoSafety      bool
	ResultAlias   string
	Loops         map[int]*LoopSpec
	Asserts       []CallAssert
	Ghosts        []GhostUpdate
	Props         []string
	File          string
	Line          int
	Trusted       bool // extern/interface: assumed, not verified
	Sig           *types.Signature
	RecvNonNil    bool
	CRLF          bool              // crlf-discipline: every raw append of non-constant bytes must be free of CR and LF
	CRLFExempt    []string          // source texts of append calls that are exempt (reported as not covered)
	FreshExcept   map[string]string // field path -> reason: not part of this method's fresh-equivalent claim
	AppendsRaw    bool              // appends-raw: copies unneutralised bytes after its first parameter
	DeadReturns   map[int]string    // source-order return index -> reason it is unreachable under the contracts
	ReplayImports []string
	ReplayDecls   []string // top-level declarations for the replay test file
	ReplayGo      []string // hand-written reproductions (test bodies) tried when an obligation of this function fails
	ghostRel      int
	ghostNames    map[string]bool
	FrameProp     string
	NoInline      bool // abstract mode: static callees are never inlined (all ghost-relevant calls are direct)
	AbstractToo   bool
	Pure          bool                // trusted-pure: parameter names are not bound
	Witnesses     []map[string]string // replay seeds: param -> Go literal (string or int)
}

type GhostUpdate struct {
	Callee  string
	Ordinal int
	Name    string
	Lhs     ast.Expr
	Expr    ast.Expr
	Before  bool
	Direct  bool
}

type SpecFunc struct {
	Name   string
	Params []SpecParam
	Result string // int, bool
	Body   ast.Expr
	Rec    bool
	Src    string
	Pkg    *types.Package
	Opaque bool
}

type SpecParam struct {
	Name string
	Type string // int, bool, mem, pos(x)
	Of   string // for pos(x): the mem parameter
}

type Macro struct {
	Name   string
	Params []string
	Body   ast.Expr
	Pkg    *types.Package // names in the body resolve in the package that declares the macro
}

type GhostVar struct {
	Name string
	Sort string // Int or Bool
	Init string
	// Scratch: a ghost local of one function (set at its entry, meaningless elsewhere): exempt from callers' frames
	Scratch bool
}

type Lemma struct {
	Name     string
	Params   []SpecParam
	Requires []Clause
	Ensures  []Clause
	Pkg      *types.Package
	Proof    string // name of ghost function proving it ("" = direct)
	File     string
	Line     int
}

// rewriteImp turns  A ==> B  and  A <==> B  into __imp(A, B) / __iff(A, B)
// at every nesting level (lowest precedence, right associative).
func rewriteImp(s string) string {
	// find matching bracket groups and rewrite inside first
	var out strings.Builder
	i := 0
	for i < len(s) {
		c := s[i]
		switch c {
		case '(', '[':
			j := matchBracket(s, i)
			if j < 0 {
				out.WriteString(s[i:])
				i = len(s)
				continue
			}
			out.WriteByte(c)
			out.WriteString(rewriteArgs(s[i+1 : j]))
			out.WriteByte(s[j])
			i = j + 1
		case '\'', '"', '`':
			j := skipLit(s, i)
			out.WriteString(s[i:j])
			i = j
		default:
			out.WriteByte(c)
			i++
		}
	}
	return rewriteLevel(out.String())
}

func rewriteArgs(s string) string {
	parts := splitTopLevel(s, ",")
	for i, p := range parts {
		parts[i] = rewriteImp(p)
	}
	return strings.Join(parts, ",")
}

// rewriteLevel handles ==> / <==> at the top level of s (brackets already processed).
func rewriteLevel(s string) string {
	if parts := splitTopLevel(s, "<==>"); len(parts) > 1 {
		r := rewriteLevel(parts[len(parts)-1])
		for i := len(parts) - 2; i >= 0; i-- {
			r = "__iff(" + rewriteLevel(parts[i]) + ", " + r + ")"
		}
		return r
	}
	if parts := splitTopLevel(s, "==>"); len(parts) > 1 {
		r := parts[len(parts)-1]
		for i := len(parts) - 2; i >= 0; i-- {
			r = "__imp(" + parts[i] + ", " + r + ")"
		}
		return r
	}
	return s
}

func matchBracket(s string, i int) int {
	d := 0
	for j := i; j < len(s); j++ {
		switch s[j] {
		case '(', '[':
			d++
		case ')', ']':
			d--
			if d == 0 {
				return j
			}
		case '\'', '"', '`':
			j = skipLit(s, j) - 1
		}
	}
	return -1
}

func skipLit(s string, i int) int {
	q := s[i]
	for j := i + 1; j < len(s); j++ {
		if s[j] == '\\' && q != '`' {
			j++
			continue
		}
		if s[j] == q {
			return j + 1
		}
	}
	return len(s)
}

func splitTopLevel(s, sep string) []string {
	var parts []string
	d := 0
	start := 0
	for i := 0; i < len(s); i++ {
		switch s[i] {
		case '(', '[':
			d++
		case ')', ']':
			d--
		case '\'', '"', '`':
			i = skipLit(s, i) - 1
			continue
		}
		if d == 0 && strings.HasPrefix(s[i:], sep) {
			// do not split "<==>" when looking for "==>"
			if sep == "==>" && i > 0 && s[i-1] == '<' {
				continue
			}
			parts = append(parts, s[start:i])
			i += len(sep) - 1
			start = i + 1
		}
	}
	parts = append(parts, s[start:])
	return parts
}

func parseSpecExpr(src string) (ast.Expr, error) {
	r := rewriteImp(src)
	e, err := parser.ParseExpr(r)
	if err != nil {
		return nil, fmt.Errorf("cannot parse %q (rewritten %q): %v", src, r, err)
	}
	return e, nil
}

// ---------------------------------------------------------------------------

type contractParser struct {
	w     *World
	pkg   *types.Package
	file  string
	errs  []string
	cur   *Contract
	loop  *LoopSpec
	lemma *Lemma
	last  *string // clause text being continued
	flush func()
}

var clauseKeywords = map[string]bool{
	"func": true, "extern": true, "interface": true, "funcvalue": true, "ghost": true, "pure": true, "rec": true,
	"lemma": true, "requires": true, "ensures": true, "top-ensures": true, "modifies": true, "allocates": true,
	"panics": true, "abstract": true, "nosafety": true, "loop": true, "invariant": true, "top-invariant": true,
	"decreases": true, "assert": true, "alias": true, "props": true, "recvnonnil": true, "ghostset": true,
	"end": true, "opaque": true, "witness": true, "trusted-pure": true, "crlf-discipline": true, "crlf-exempt": true, "replay-go": true, "appends-raw": true, "fresh-override": true, "fresh-except": true, "macro": true, "ghostset-at-entry": true, "abstract-too": true, "replay-import": true, "noinline": true, "replay-decl": true, "unreachable-return": true, "frame-prop": true, "immutable": true, "assumed-ensures": true, "forbid": true,
}

// parseContractFile reads the //@ lines of one file.
func (w *World) parseContractFile(pkg *types.Package, f *ast.File, fset *token.FileSet) {
	p := &contractParser{w: w, pkg: pkg, file: fset.Position(f.Pos()).Filename}
	type line struct {
		text string
		no   int
	}
	var lines []line
	for _, cg := range f.Comments {
		for _, c := range cg.List {
			t := c.Text
			if !strings.HasPrefix(t, "//@") {
				continue
			}
			t = strings.TrimSpace(t[3:])
			if t == "" {
				continue
			}
			lines = append(lines, line{t, fset.Position(c.Pos()).Line})
		}
	}
	// join continuation lines
	var joined []line
	for _, l := range lines {
		first := l.text
		if i := strings.IndexAny(first, " \t:("); i >= 0 {
			first = first[:i]
		}
		if clauseKeywords[first] || len(joined) == 0 {
			joined = append(joined, l)
		} else {
			joined[len(joined)-1].text += " " + l.text
		}
	}
	for _, l := range joined {
		if err := p.line(l.text, l.no); err != nil {
			w.errs = append(w.errs, fmt.Sprintf("%s:%d: %v", p.file, l.no, err))
		}
	}
}

func (p *contractParser) clause(src string, no int, top bool) (Clause, error) {
	prop := ""
	if strings.HasPrefix(src, "@") {
		if i := strings.IndexAny(src, " \t"); i > 0 {
			prop, src = src[1:i], strings.TrimSpace(src[i+1:])
		}
	}
	e, err := parseSpecExpr(src)
	if err != nil {
		return Clause{}, err
	}
	return Clause{Prop: prop, Expr: e, Src: src, Top: top, File: p.file, Line: no}, nil
}

func (p *contractParser) line(t string, no int) error {
	kw := t
	rest := ""
	if i := strings.IndexAny(t, " \t"); i >= 0 {
		kw, rest = t[:i], strings.TrimSpace(t[i+1:])
	}
	switch kw {
	case "func", "extern", "interface", "funcvalue":
		c, err := p.header(kw, rest, no)
		if err != nil {
			return err
		}
		p.cur = c
		p.loop = nil
		p.lemma = nil
		if c.Key != "" {
			p.w.addContract(c)
		}
		return nil
	case "ghost":
		// ghost var NAME int|bool   |   ghost field Type.NAME int|bool
		fs := strings.Fields(rest)
		if len(fs) < 3 || (fs[0] != "var" && fs[0] != "field") {
			return fmt.Errorf("expected: ghost var NAME int|bool  or  ghost field Type.NAME int|bool")
		}
		g := &GhostVar{Name: fs[1], Sort: "Int", Init: "0"}
		if fs[2] == "bool" {
			g.Sort = "Bool"
			g.Init = "false"
		}
		if fs[2] == "array" {
			g.Sort = "(Array Int Int)"
			g.Init = "((as const (Array Int Int)) 0)"
		}
		if len(fs) > 3 && fs[3] == "scratch" {
			g.Scratch = true
		}
		if fs[0] == "field" {
			if strings.Count(g.Name, ".") == 1 && !strings.HasPrefix(g.Name, "*.") {
				g.Name = p.pkg.Name() + "." + g.Name
			}
		}
		p.w.ghosts[g.Name] = g
		return nil
	case "pure", "rec":
		return p.specFunc(kw == "rec", rest, no)
	case "fresh-override":
		return p.freshOverride(rest)
	case "immutable":
		// immutable Type.field :: reason  - the field is written only while its object is being constructed
		// (checked over the whole module on every run, see World.immutableOK); unknown calls of the abstract
		// mode then leave it alone
		reason := ""
		if i := strings.Index(rest, "::"); i >= 0 {
			reason = strings.TrimSpace(rest[i+2:])
			rest = strings.TrimSpace(rest[:i])
		}
		key := strings.TrimSpace(rest)
		if strings.Count(key, ".") == 1 {
			key = p.pkg.Name() + "." + key
		}
		if reason == "" || strings.Count(key, ".") != 2 {
			return fmt.Errorf("immutable needs: Type.field :: reason")
		}
		p.w.immutables[key] = &immutableDecl{Key: key, Reason: reason}
		return nil
	case "macro":
		// macro NAME(p1, p2) = expr  (parameters may be of any kind; expanded at each use)
		i := strings.Index(rest, "(")
		j := matchBracket(rest, i)
		k := strings.Index(rest, "=")
		if i < 0 || j < 0 || k < j {
			return fmt.Errorf("macro needs NAME(params) = expr")
		}
		m := &Macro{Name: strings.TrimSpace(rest[:i]), Pkg: p.pkg}
		for _, a := range strings.Split(rest[i+1:j], ",") {
			if a = strings.TrimSpace(a); a != "" {
				m.Params = append(m.Params, a)
			}
		}
		e, err := parseSpecExpr(strings.TrimSpace(rest[k+1:]))
		if err != nil {
			return err
		}
		m.Body = e
		p.w.macros[m.Name] = m
		return nil
	case "trusted-pure":
		// trusted-pure pkg | pkg.Type : calls have no effect on modelled state; results are arbitrary
		parts := strings.SplitN(strings.TrimSpace(rest), ".", 2)
		path := p.w.resolvePkgName(p.pkg, parts[0])
		if path == "" {
			return nil // package not loaded in this run: nothing can call into it
		}
		key := path
		if len(parts) == 2 {
			key = path + "." + parts[1]
		}
		p.w.trustedPure[key] = true
		return nil
	case "lemma":
		return p.lemmaHeader(rest, no)
	}
	if p.lemma != nil {
		switch kw {
		case "requires":
			c, err := p.clause(rest, no, false)
			if err != nil {
				return err
			}
			p.lemma.Requires = append(p.lemma.Requires, c)
			return nil
		case "ensures":
			c, err := p.clause(rest, no, false)
			if err != nil {
				return err
			}
			p.lemma.Ensures = append(p.lemma.Ensures, c)
			return nil
		}
	}
	if p.cur == nil {
		return fmt.Errorf("clause %q outside a contract", kw)
	}
	c := p.cur
	switch kw {
	case "requires":
		cl, err := p.clause(rest, no, false)
		if err != nil {
			return err
		}
		c.Requires = append(c.Requires, cl)
	case "ensures", "top-ensures", "assumed-ensures":
		cl, err := p.clause(rest, no, kw == "top-ensures")
		if err != nil {
			return err
		}
		cl.Assumed = kw == "assumed-ensures"
		c.Ensures = append(c.Ensures, cl)
	case "modifies":
		items, all, err := p.modifies(rest)
		if err != nil {
			return err
		}
		if p.loop != nil {
			p.loop.Modifies = append(p.loop.Modifies, items...)
			p.loop.ModifiesAll = p.loop.ModifiesAll || all
		} else {
			c.Modifies = append(c.Modifies, items...)
			c.ModifiesAll = c.ModifiesAll || all
		}
	case "allocates":
		c.Allocates = true
	case "panics":
		c.PanicsAllowed = true
	case "abstract":
		c.Abstract = true
	case "nosafety":
		c.NoSafety = true
	case "recvnonnil":
		c.RecvNonNil = true
	case "alias":
		c.ResultAlias = rest
	case "fresh-except":
		i := strings.Index(rest, "::")
		if i < 0 {
			return fmt.Errorf("fresh-except needs: path :: reason")
		}
		if c.FreshExcept == nil {
			c.FreshExcept = map[string]string{}
		}
		c.FreshExcept[strings.TrimSpace(rest[:i])] = strings.TrimSpace(rest[i+2:])
	case "noinline":
		c.NoInline = true
	case "frame-prop":
		c.FrameProp = rest // the frame obligations belong to this property only
	case "abstract-too":
		c.AbstractToo = true // applied at call sites even in abstract-mode functions
	case "appends-raw":
		c.AppendsRaw = true
	case "unreachable-return":
		i := strings.Index(rest, "::")
		if i < 0 {
			return fmt.Errorf("unreachable-return needs: N :: reason")
		}
		n, err := strconv.Atoi(strings.TrimSpace(rest[:i]))
		if err != nil {
			return err
		}
		if c.DeadReturns == nil {
			c.DeadReturns = map[int]string{}
		}
		c.DeadReturns[n] = strings.TrimSpace(rest[i+2:])
	case "replay-decl":
		c.ReplayDecls = append(c.ReplayDecls, rest)
	case "replay-import":
		c.ReplayImports = append(c.ReplayImports, strings.Trim(strings.TrimSpace(rest), "\""))
	case "replay-go":
		c.ReplayGo = append(c.ReplayGo, rest)
	case "crlf-discipline":
		c.CRLF = true
	case "crlf-exempt":
		c.CRLFExempt = append(c.CRLFExempt, strings.TrimSpace(rest))
	case "witness":
		// witness a = "text", n = 5
		wm := map[string]string{}
		for _, part := range splitTopLevel(rest, ",") {
			kv := strings.SplitN(part, "=", 2)
			if len(kv) != 2 {
				return fmt.Errorf("witness needs name = literal")
			}
			wm[strings.TrimSpace(kv[0])] = strings.TrimSpace(kv[1])
		}
		c.Witnesses = append(c.Witnesses, wm)
	case "props":
		c.Props = append(c.Props, strings.Fields(strings.ReplaceAll(rest, ",", " "))...)
	case "loop":
		n, err := strconv.Atoi(strings.TrimSuffix(strings.TrimSpace(rest), ":"))
		if err != nil {
			return fmt.Errorf("loop ordinal: %v", err)
		}
		p.loop = &LoopSpec{}
		if c.Loops == nil {
			c.Loops = map[int]*LoopSpec{}
		}
		c.Loops[n] = p.loop
	case "end":
		p.loop = nil
	case "invariant", "top-invariant":
		if p.loop == nil {
			return fmt.Errorf("invariant outside loop")
		}
		cl, err := p.clause(rest, no, kw == "top-invariant")
		if err != nil {
			return err
		}
		p.loop.Invariants = append(p.loop.Invariants, cl)
	case "decreases":
		if p.loop == nil {
			return fmt.Errorf("decreases outside loop")
		}
		e, err := parseSpecExpr(rest)
		if err != nil {
			return err
		}
		p.loop.Decreases = e
	case "assert":
		// assert [@Cxx] before|after CALLEE[#n]: expr
		tag := ""
		if strings.HasPrefix(rest, "@") {
			if k := strings.IndexAny(rest, " \t"); k > 0 {
				tag, rest = rest[1:k], strings.TrimSpace(rest[k+1:])
			}
		}
		i := strings.Index(rest, ":")
		if i < 0 {
			return fmt.Errorf("assert needs 'before CALLEE[#n]: expr'")
		}
		hd := strings.Fields(rest[:i])
		if len(hd) != 2 || (hd[0] != "before" && hd[0] != "after") {
			return fmt.Errorf("assert needs 'before|after CALLEE[#n]: expr'")
		}
		callee, ord := hd[1], -1
		direct := strings.Contains(callee, "!")
		callee = strings.ReplaceAll(callee, "!", "")
		if j := strings.Index(callee, "#"); j >= 0 {
			n, err := strconv.Atoi(callee[j+1:])
			if err != nil {
				return err
			}
			callee, ord = callee[:j], n
		}
		cl, err := p.clause(strings.TrimSpace(rest[i+1:]), no, false)
		if err != nil {
			return err
		}
		cl.Top = true
		if tag != "" {
			cl.Prop = tag
		}
		c.Asserts = append(c.Asserts, CallAssert{Callee: callee, Ordinal: ord, Clause: cl, After: hd[0] == "after", Direct: direct})
	case "forbid":
		// forbid [@Cxx] CALLEE : the function (and what is inlined into it) makes no call of that name; unlike an
		// `assert before CALLEE: false` the clause does not have to bind to an existing call
		tag := ""
		if strings.HasPrefix(rest, "@") {
			if k := strings.IndexAny(rest, " \t"); k > 0 {
				tag, rest = rest[1:k], strings.TrimSpace(rest[k+1:])
			}
		}
		callee := strings.TrimSpace(rest)
		if callee == "" || strings.ContainsAny(callee, " \t:") {
			return fmt.Errorf("forbid needs a callee name")
		}
		direct := strings.Contains(callee, "!")
		callee = strings.ReplaceAll(callee, "!", "")
		cl, err := p.clause("false", no, false)
		if err != nil {
			return err
		}
		cl.Top = true
		cl.Prop = tag
		cl.Src = "forbid " + callee
		c.Asserts = append(c.Asserts, CallAssert{Callee: callee, Ordinal: -1, Clause: cl, Forbid: true, Direct: direct})
	case "ghostset-at-entry":
		as := strings.SplitN(rest, "=", 2)
		if len(as) != 2 {
			return fmt.Errorf("ghostset-at-entry needs lhs = expr")
		}
		e, err := parseSpecExpr(strings.TrimSpace(as[1]))
		if err != nil {
			return err
		}
		lhs, err := parseSpecExpr(strings.TrimSpace(as[0]))
		if err != nil {
			return err
		}
		c.Ghosts = append(c.Ghosts, GhostUpdate{Callee: "@entry", Ordinal: -1, Name: strings.TrimSpace(as[0]), Lhs: lhs, Expr: e})
	case "ghostset":
		// ghostset before|after CALLEE[#n]: lhs = expr     (lhs: ghost variable or x.ghostfield)
		i := strings.Index(rest, ":")
		if i < 0 {
			return fmt.Errorf("ghostset needs 'before|after CALLEE[#n]: lhs = expr'")
		}
		hd := strings.Fields(rest[:i])
		if len(hd) != 2 || (hd[0] != "before" && hd[0] != "after") {
			return fmt.Errorf("ghostset needs 'before|after CALLEE[#n]: lhs = expr'")
		}
		callee, ord := hd[1], -1
		direct := strings.Contains(callee, "!")
		callee = strings.ReplaceAll(callee, "!", "")
		if j := strings.Index(callee, "#"); j >= 0 {
			n, err := strconv.Atoi(callee[j+1:])
			if err != nil {
				return err
			}
			callee, ord = callee[:j], n
		}
		as := strings.SplitN(rest[i+1:], "=", 2)
		if len(as) != 2 {
			return fmt.Errorf("ghostset needs lhs = expr")
		}
		e, err := parseSpecExpr(strings.TrimSpace(as[1]))
		if err != nil {
			return err
		}
		lhs, err := parseSpecExpr(strings.TrimSpace(as[0]))
		if err != nil {
			return err
		}
		c.Ghosts = append(c.Ghosts, GhostUpdate{Callee: callee, Ordinal: ord, Name: strings.TrimSpace(as[0]), Lhs: lhs, Expr: e, Before: hd[0] == "before", Direct: direct})
	default:
		return fmt.Errorf("unknown clause %q", kw)
	}
	return nil
}

// header: NAME(params) results
func (p *contractParser) header(kind, rest string, no int) (*Contract, error) {
	c := &Contract{Kind: kind, Pkg: p.pkg, PkgPath: p.pkg.Path(), File: p.file, Line: no, Trusted: kind != "func"}
	name := rest
	if i := strings.Index(rest, "("); i >= 0 {
		j := matchBracket(rest, i)
		if j < 0 {
			return nil, fmt.Errorf("unbalanced header")
		}
		name = strings.TrimSpace(rest[:i])
		for _, a := range strings.Split(rest[i+1:j], ",") {
			if a = strings.TrimSpace(a); a != "" {
				c.Params = append(c.Params, a)
			}
		}
		res := strings.TrimSpace(rest[j+1:])
		res = strings.Trim(res, "()")
		for _, a := range strings.Split(res, ",") {
			if a = strings.TrimSpace(a); a != "" {
				c.Results = append(c.Results, a)
			}
		}
	}
	c.Name = name
	switch kind {
	case "func":
		c.Key = p.pkg.Path() + "." + name
	case "extern", "interface", "funcvalue":
		// name is pkgname.Func or pkgname.Type.Method, resolved through imports of the contract file's package
		parts := strings.SplitN(name, ".", 2)
		if len(parts) != 2 {
			return nil, fmt.Errorf("%s contract needs a package-qualified name", kind)
		}
		path := p.w.resolvePkgName(p.pkg, parts[0])
		if path == "" {
			// package not loaded in this run: keep parsing the clauses into an unregistered contract
			c.Key = ""
			return c, nil
		}
		c.Key = path + "." + parts[1]
		c.PkgPath = path
	}
	return c, nil
}

func (p *contractParser) modifies(rest string) (items []ModItem, all bool, err error) {
	for _, part := range splitTopLevel(rest, ",") {
		part = strings.TrimSpace(part)
		if part == "" {
			continue
		}
		if part == "*" {
			all = true
			continue
		}
		if part == "mem" {
			items = append(items, ModItem{Kind: modMem, Src: part})
			continue
		}
		if strings.HasPrefix(part, "membut(") && strings.HasSuffix(part, ")") {
			mi := ModItem{Kind: modMem, Src: part}
			for _, a := range splitTopLevel(part[7:len(part)-1], ",") {
				e, err := parseSpecExpr(strings.TrimSpace(a))
				if err != nil {
					return nil, false, err
				}
				mi.But = append(mi.But, e)
			}
			items = append(items, mi)
			continue
		}
		if strings.HasPrefix(part, "alltype(") && strings.HasSuffix(part, ")") {
			items = append(items, ModItem{Kind: modType, Name: strings.TrimSpace(part[8 : len(part)-1]), Src: part})
			continue
		}
		switch {
		case strings.HasPrefix(part, "bytes(") && strings.HasSuffix(part, ")"):
			e, err := parseSpecExpr(part[6 : len(part)-1])
			if err != nil {
				return nil, false, err
			}
			items = append(items, ModItem{Kind: modBytes, Expr: e, Src: part})
		case strings.HasPrefix(part, "spare(") && strings.HasSuffix(part, ")"):
			e, err := parseSpecExpr(part[6 : len(part)-1])
			if err != nil {
				return nil, false, err
			}
			items = append(items, ModItem{Kind: modSpare, Expr: e, Src: part})
		default:
			if _, ok := p.w.ghosts[part]; ok {
				items = append(items, ModItem{Kind: modGhost, Name: part, Src: part})
				continue
			}
			e, err := parseSpecExpr(part)
			if err != nil {
				return nil, false, err
			}
			if id, ok := e.(*ast.Ident); ok {
				// a bare identifier that is not (yet) a declared ghost: treat as ghost, checked later
				items = append(items, ModItem{Kind: modGhost, Name: id.Name, Src: part})
				continue
			}
			items = append(items, ModItem{Kind: modField, Expr: e, Src: part})
		}
	}
	return
}

// specFunc: NAME(p type, ...) type = expr
func (p *contractParser) specFunc(rec bool, rest string, no int) error {
	if !strings.HasPrefix(rest, "func ") {
		return fmt.Errorf("expected 'func'")
	}
	rest = strings.TrimSpace(rest[5:])
	i := strings.Index(rest, "(")
	j := matchBracket(rest, i)
	if i < 0 || j < 0 {
		return fmt.Errorf("bad spec function header")
	}
	sf := &SpecFunc{Name: strings.TrimSpace(rest[:i]), Rec: rec, Pkg: p.pkg, Src: rest}
	for _, a := range splitTopLevel(rest[i+1:j], ",") {
		fs := strings.Fields(a)
		if len(fs) != 2 {
			return fmt.Errorf("bad spec parameter %q", a)
		}
		sp := SpecParam{Name: fs[0], Type: fs[1]}
		if strings.HasPrefix(fs[1], "pos(") {
			sp.Type = "pos"
			sp.Of = strings.TrimSuffix(fs[1][4:], ")")
		}
		sf.Params = append(sf.Params, sp)
	}
	tail := strings.TrimSpace(rest[j+1:])
	k := strings.Index(tail, "=")
	if k < 0 {
		return fmt.Errorf("spec function needs '= body'")
	}
	sf.Result = strings.TrimSpace(tail[:k])
	body, err := parseSpecExpr(strings.TrimSpace(tail[k+1:]))
	if err != nil {
		return err
	}
	sf.Body = body
	p.w.specFuncs[sf.Name] = sf
	p.w.specOrder = append(p.w.specOrder, sf.Name)
	return nil
}

func (p *contractParser) lemmaHeader(rest string, no int) error {
	i := strings.Index(rest, "(")
	j := matchBracket(rest, i)
	if i < 0 || j < 0 {
		return fmt.Errorf("bad lemma header")
	}
	l := &Lemma{Name: strings.TrimSpace(rest[:i]), Pkg: p.pkg, File: p.file, Line: no}
	for _, a := range splitTopLevel(rest[i+1:j], ",") {
		fs := strings.Fields(a)
		if len(fs) != 2 {
			return fmt.Errorf("bad lemma parameter %q", a)
		}
		sp := SpecParam{Name: fs[0], Type: fs[1]}
		if strings.HasPrefix(fs[1], "pos(") {
			sp.Type = "pos"
			sp.Of = strings.TrimSuffix(fs[1][4:], ")")
		}
		l.Params = append(l.Params, sp)
	}
	p.w.lemmas[l.Name] = l
	p.lemma = l
	p.cur = nil
	return nil
}
