package main

import (
	"fmt"
	"go/ast"
	"go/token"
	"go/types"
	"strings"

	"golang.org/x/tools/go/ssa"
)

func (in *Inst) setResult(x *ssa.Call, v Val) {
	if v.Ty == nil {
		v.Ty = x.Type()
	}
	in.vals[x] = v
}

// call encodes a call instruction.
func (in *Inst) call(x *ssa.Call, st *State) {
	in.callAsserts(x, st, false)
	in.callInner(x, st)
	in.callAsserts(x, st, true)
}

func (in *Inst) callInner(x *ssa.Call, st *State) {
	e := in.e
	c := &x.Call
	if b, ok := c.Value.(*ssa.Builtin); ok {
		in.builtin(x, b, st)
		return
	}
	var args []Val
	if c.IsInvoke() {
		args = append(args, in.val(c.Value, st))
	}
	for _, a := range c.Args {
		args = append(args, in.val(a, st))
	}
	if c.IsInvoke() {
		if con := e.W.ifaceContract(c); con != nil && (!e.abstract || con.AbstractToo || e.W.ghostRelevantTo(con, e.top.con)) {
			sig := c.Method.Type().(*types.Signature)
			rs := in.applyContract(con, args, sig, c.Value.Type(), st, x.Pos(), x.Type())
			in.setResult(x, rs)
			return
		}
		in.unknownCall(x, c.Value.Type().String()+"."+c.Method.Name(), st)
		return
	}
	callee := c.StaticCallee()
	if callee == nil {
		// call of a function value
		if ci := in.closureOf(c.Value); ci != nil {
			rs := in.inline(ci.fn, args, ci.bindings, st, x.Pos())
			in.setResult(x, in.packResults(rs, x.Type()))
			return
		}
		if con := e.W.funcValueContract(c.Value.Type()); con != nil && (!e.abstract || con.AbstractToo || e.W.ghostRelevantTo(con, e.top.con)) {
			sig := c.Value.Type().Underlying().(*types.Signature)
			rs := in.applyContract(con, args, sig, nil, st, x.Pos(), x.Type())
			in.setResult(x, rs)
			return
		}
		in.unknownCall(x, "function value "+c.Value.Name(), st)
		return
	}
	switch e.W.intrinsic(callee) {
	case "b2s":
		v := args[0]
		in.setResult(x, Val{K: KSlc, T: e.define(in.name(x), "Slc", mkSlc(slcArr(v.T), slcOff(v.T), slcLen(v.T), slcLen(v.T))), Ty: x.Type()})
		e.note("bytesconv.B2s is an aliasing conversion (unsafe, trusted)")
		return
	case "s2b":
		v := args[0]
		in.setResult(x, Val{K: KSlc, T: e.define(in.name(x), "Slc", mkSlc(slcArr(v.T), slcOff(v.T), slcLen(v.T), slcLen(v.T))), Ty: x.Type()})
		e.note("bytesconv.S2b is an aliasing conversion (unsafe, trusted)")
		return
	}
	if mc, ok := c.Value.(*ssa.MakeClosure); ok {
		if ci := e.closures[mc]; ci != nil {
			rs := in.inline(ci.fn, args, ci.bindings, st, x.Pos())
			in.setResult(x, in.packResults(rs, x.Type()))
			return
		}
	}
	if con := e.W.contractFor(callee); con != nil && (!e.abstract || con.AbstractToo || e.W.ghostRelevantTo(con, e.top.con)) {
		if con.Sig == nil {
			con.Sig = callee.Signature
		}
		rs := in.applyContract(con, args, callee.Signature, nil, st, x.Pos(), x.Type())
		in.setResult(x, rs)
		return
	}
	if e.abstract {
		// abstract mode keeps queries small: a callee is inlined only when it can affect the ghost
		// state (it contains, transitively, a call named in the contract's assert/ghostset clauses or a
		// call of a ghost-relevant contract); everything else is an unknown call
		if !e.top.con.NoInline && e.W.abstractRelevant(callee, e.top.con, 0, map[*ssa.Function]bool{}) && !in.recursive(callee) && in.depth < 6 {
			rs := in.inline(callee, args, nil, st, x.Pos())
			in.setResult(x, in.packResults(rs, x.Type()))
			return
		}
		in.unknownCall(x, callee.String(), st)
		return
	}
	if e.W.inlinable(callee, in.depth) && !in.recursive(callee) {
		rs := in.inline(callee, args, nil, st, x.Pos())
		in.setResult(x, in.packResults(rs, x.Type()))
		return
	}
	in.unknownCall(x, callee.String(), st)
}

func (in *Inst) recursive(fn *ssa.Function) bool {
	for i := in; i != nil; i = i.parent {
		if i.fn == fn {
			return true
		}
	}
	return false
}

func (in *Inst) packResults(rs []Val, t types.Type) Val {
	switch len(rs) {
	case 0:
		return Val{K: KUnit, Ty: t}
	case 1:
		return rs[0]
	}
	return Val{K: KStruct, Fs: rs, Ty: t}
}

// unknownCall: no contract, not inlinable.
func (in *Inst) unknownCall(x *ssa.Call, what string, st *State) {
	e := in.e
	if !e.abstract {
		e.fail("call of %s in %s needs a contract", what, in.fn.Name())
	}
	e.note("abstract mode: call of " + what + " havocs all non-ghost state")
	in.havocAll(st)
	in.setResult(x, e.freshVal(in.name(x), x.Type(), st))
}

// havocAll replaces the heap by an unknown one (ghost and non-escaping locals survive).
func (in *Inst) havocAll(st *State) {
	e := in.e
	from := st.clone()
	ep := &Epoch{id: e.newEpoch(), kind: epHavoc, from: from, memo: map[string]string{}, enc: e,
		keep: func(name string) bool {
			if e.isGhostOrLocal(name) || strings.HasPrefix(name, "gf:") {
				return true
			}
			if ok, d := e.W.immutableOK(name); d != nil {
				if ok {
					e.note("immutable field " + d.Key + " survives unknown calls (" + d.Reason + "); checked on this run: every store to it in the module targets an object allocated in the storing function; reflect/unsafe writes not considered")
				} else {
					e.note("immutable declaration for " + d.Key + " does NOT hold (" + d.why + "): ignored")
				}
				return ok
			}
			return false
		}}
	st.ep = ep
	st.ov = map[string]string{}
	for _, pc := range e.pinned {
		e.assume(st.reach, sEq(sSel(st.get(pc.comp), pc.ref), pc.val))
	}
}

// ---------------------------------------------------------------------------
// builtins
// ---------------------------------------------------------------------------

func (in *Inst) builtin(x *ssa.Call, b *ssa.Builtin, st *State) {
	e := in.e
	c := &x.Call
	switch b.Name() {
	case "len":
		v := in.val(c.Args[0], st)
		switch c.Args[0].Type().Underlying().(type) {
		case *types.Slice, *types.Basic:
			in.vals[x] = Val{K: KInt, T: e.define(in.name(x), "Int", slcLen(v.T)), Ty: x.Type()}
		case *types.Pointer, *types.Array:
			var a *types.Array
			if p, ok := c.Args[0].Type().Underlying().(*types.Pointer); ok {
				a = p.Elem().Underlying().(*types.Array)
			} else {
				a = c.Args[0].Type().Underlying().(*types.Array)
			}
			in.vals[x] = Val{K: KInt, T: fmt.Sprint(a.Len()), Ty: x.Type()}
		default:
			// maps, channels
			r := e.freshVal(in.name(x), x.Type(), st)
			e.axiom(sApp("<=", "0", r.T))
			in.vals[x] = r
		}
	case "cap":
		v := in.val(c.Args[0], st)
		if v.K == KSlc {
			in.vals[x] = Val{K: KInt, T: e.define(in.name(x), "Int", slcCap(v.T)), Ty: x.Type()}
		} else {
			r := e.freshVal(in.name(x), x.Type(), st)
			e.axiom(sApp("<=", "0", r.T))
			in.vals[x] = r
		}
	case "append":
		in.vals[x] = in.appendCall(x, st)
	case "copy":
		in.vals[x] = in.copyCall(x, st)
	case "delete", "print", "println", "close", "clear":
		in.vals[x] = Val{K: KUnit}
	case "recover":
		in.vals[x] = e.freshVal(in.name(x), x.Type(), st)
	case "min", "max":
		a, bb := in.val(c.Args[0], st), in.val(c.Args[1], st)
		op := "<="
		if b.Name() == "max" {
			op = ">="
		}
		in.vals[x] = Val{K: KInt, T: e.define(in.name(x), "Int", sIte(sApp(op, a.T, bb.T), a.T, bb.T)), Ty: x.Type()}
	default:
		e.fail("builtin %s", b.Name())
	}
}

func (in *Inst) appendCall(x *ssa.Call, st *State) Val {
	e := in.e
	c := &x.Call
	s := in.val(c.Args[0], st)
	xs := in.val(c.Args[1], st)
	sl, _ := x.Type().Underlying().(*types.Slice)
	var elem types.Type = types.Typ[types.Uint8]
	if sl != nil {
		elem = sl.Elem()
	}
	n := slcLen(xs.T)
	in.crlfCheck(x, xs, st)
	newLen := e.define(in.name(x)+".len", "Int", sAdd(slcLen(s.T), n))
	inplace := e.define(in.name(x)+".inplace", "Bool", sApp("<=", newLen, slcCap(s.T)))
	fr := st.get("alloc")
	st.set("alloc", e.define("alloc", "Int", sAdd(fr, "1")))
	capc := e.freshConst(in.name(x)+".cap", "Int")
	e.axiom(sAnd(sApp("<=", newLen, capc), sApp("<=", capc, maxAlloc)))
	e.assume(st.reach, sApp("<=", newLen, maxAlloc))
	// appending nothing to a nil slice gives a nil slice
	r := e.define(in.name(x), "Slc", sIte(inplace,
		mkSlc(slcArr(s.T), slcOff(s.T), newLen, slcCap(s.T)),
		mkSlc(fr, "0", newLen, capc)))
	rOff := e.define(in.name(x)+".off", "Int", sIte(inplace, slcOff(s.T), "0"))
	rArr := e.define(in.name(x)+".arr", "Int", sIte(inplace, slcArr(s.T), fr))
	switch kindOfType(elem) {
	case KInt, KRef:
		m := st.get("Mem")
		a2 := e.freshConst(in.name(x)+".A", "(Array Int Int)")
		mOld := sSel(m, slcArr(s.T))
		mXs := sSel(m, slcArr(xs.T))
		mid := sAdd(rOff, slcLen(s.T))
		end := sAdd(rOff, newLen)
		// new elements, then (in place: everything else unchanged) / (fresh: old prefix copied)
		body := sIte(sAnd(sApp("<=", mid, "j"), sApp("<", "j", end)),
			sEq(sSel(a2, "j"), sSel(mXs, sAdd(sSub("j", mid), slcOff(xs.T)))),
			sIte(inplace,
				sEq(sSel(a2, "j"), sSel(mOld, "j")),
				sImp(sAnd(sApp("<=", "0", "j"), sApp("<", "j", slcLen(s.T))), sEq(sSel(a2, "j"), sSel(mOld, sAdd("j", slcOff(s.T)))))))
		e.assume(st.reach, fmt.Sprintf("(forall ((j Int)) (! %s :pattern ((select %s j))))", body, a2))
		st.set("Mem", e.define("Mem", e.compSort("Mem"), sStore(m, rArr, a2)))
	case KStruct:
		in.appendStructs(x, s, xs, elem, rArr, rOff, inplace, newLen, st)
	default:
		comp := e.elemComp(elem)
		old := st.get(comp)
		nw := e.freshConst(in.name(x)+".E", e.compSort(comp))
		mid := sAdd(rOff, slcLen(s.T))
		end := sAdd(rOff, newLen)
		// frame: every element ref outside the target window keeps its value
		e.assume(st.reach, fmt.Sprintf("(forall ((r Int)) (! (=> (not (and (= (elem-arr r) %s) (= r (elem %s (elem-idx r))) (<= %s (elem-idx r)) (< (elem-idx r) %s))) (= (select %s r) (select %s r))) :pattern ((select %s r))))",
			rArr, rArr, sIte(inplace, mid, "0"), end, nw, old, nw))
		e.assume(st.reach, fmt.Sprintf("(forall ((j Int)) (! (=> (and (<= %s j) (< j %s)) (= (select %s (elem %s j)) (select %s (elem %s (+ (- j %s) %s))))) :pattern ((elem %s j))))",
			mid, end, nw, rArr, old, slcArr(xs.T), mid, slcOff(xs.T), rArr))
		e.assume(st.reach, sImp(sNot(inplace), fmt.Sprintf("(forall ((j Int)) (! (=> (and (<= 0 j) (< j %s)) (= (select %s (elem %s j)) (select %s (elem %s (+ j %s))))) :pattern ((elem %s j))))",
			slcLen(s.T), nw, rArr, old, slcArr(s.T), slcOff(s.T), rArr)))
		st.set(comp, nw)
	}
	return Val{K: KSlc, T: r, Ty: x.Type()}
}

// appendStructs: append for slices of structs; each flattened field component is updated.
func (in *Inst) appendStructs(x *ssa.Call, s, xs Val, elem types.Type, rArr, rOff, inplace, newLen string, st *State) {
	e := in.e
	mid := sAdd(rOff, slcLen(s.T))
	end := sAdd(rOff, newLen)
	var walk func(T types.Type, wrap func(string) string)
	walk = func(T types.Type, wrap func(string) string) {
		stt := T.Underlying().(*types.Struct)
		for i := 0; i < stt.NumFields(); i++ {
			name, ft := e.fieldComp(T, i)
			switch ft.Underlying().(type) {
			case *types.Struct:
				i := i
				T2 := T
				walk(ft, func(r string) string { return e.subRef(T2, i, wrap(r)) })
				continue
			case *types.Array:
				e.fail("append of structs with array fields")
			}
			old := st.get(name)
			nw := e.freshConst(in.name(x)+"."+stt.Field(i).Name(), e.compSort(name))
			// new elements copied from xs
			e.assume(st.reach, fmt.Sprintf("(forall ((j Int)) (! (=> (and (<= %s j) (< j %s)) (= (select %s %s) (select %s %s))) :pattern ((elem %s j))))",
				mid, end, nw, wrap(sApp("elem", rArr, "j")), old, wrap(sApp("elem", slcArr(xs.T), sAdd(sSub("j", mid), slcOff(xs.T)))), rArr))
			// reallocation: old prefix copied
			e.assume(st.reach, sImp(sNot(inplace), fmt.Sprintf("(forall ((j Int)) (! (=> (and (<= 0 j) (< j %s)) (= (select %s %s) (select %s %s))) :pattern ((elem %s j))))",
				slcLen(s.T), nw, wrap(sApp("elem", rArr, "j")), old, wrap(sApp("elem", slcArr(s.T), sAdd("j", slcOff(s.T)))), rArr)))
			// frame: refs that are not elements of the target window are unchanged. Stated for
			// refs r with r = wrap(elem(rArr, j)) excluded; we use the weaker, sound form:
			// every ref allocated before (r < alloc is not applicable to elem refs), so:
			// all refs whose owning array differs from rArr keep their value.
			e.assume(st.reach, fmt.Sprintf("(forall ((r Int)) (! (=> (not (= (owner-arr r) %s)) (= (select %s r) (select %s r))) :pattern ((select %s r))))", rArr, nw, old, nw))
			e.assume(st.reach, sImp(inplace, fmt.Sprintf("(forall ((j Int)) (! (=> (not (and (<= %s j) (< j %s))) (= (select %s %s) (select %s %s))) :pattern ((elem %s j))))",
				mid, end, nw, wrap(sApp("elem", rArr, "j")), old, wrap(sApp("elem", rArr, "j")), rArr)))
			st.set(name, nw)
		}
	}
	e.needOwner()
	walk(elem, func(r string) string { return r })
}

func (e *Enc) needOwner() {}

func (in *Inst) copyCall(x *ssa.Call, st *State) Val {
	e := in.e
	c := &x.Call
	dst := in.val(c.Args[0], st)
	src := in.val(c.Args[1], st)
	n := e.define(in.name(x), "Int", sIte(sApp("<=", slcLen(dst.T), slcLen(src.T)), slcLen(dst.T), slcLen(src.T)))
	var elem types.Type = types.Typ[types.Uint8]
	if sl, ok := c.Args[0].Type().Underlying().(*types.Slice); ok {
		elem = sl.Elem()
	}
	switch kindOfType(elem) {
	case KInt, KRef:
		m := st.get("Mem")
		a2 := e.freshConst(in.name(x)+".A", "(Array Int Int)")
		mDst := sSel(m, slcArr(dst.T))
		mSrc := sSel(m, slcArr(src.T))
		lo := slcOff(dst.T)
		hi := sAdd(lo, n)
		body := sIte(sAnd(sApp("<=", lo, "j"), sApp("<", "j", hi)),
			sEq(sSel(a2, "j"), sSel(mSrc, sAdd(sSub("j", lo), slcOff(src.T)))),
			sEq(sSel(a2, "j"), sSel(mDst, "j")))
		e.assume(st.reach, fmt.Sprintf("(forall ((j Int)) (! %s :pattern ((select %s j))))", body, a2))
		st.set("Mem", e.define("Mem", e.compSort("Mem"), sStore(m, slcArr(dst.T), a2)))
	default:
		if !e.abstract {
			e.fail("copy of non-scalar elements")
		}
		in.havocAll(st)
	}
	return Val{K: KInt, T: n, Ty: x.Type()}
}

// ---------------------------------------------------------------------------
// Inlining
// ---------------------------------------------------------------------------

// inline encodes the callee body in place. Returns the merged results and
// updates st to the merged state after the call.
func (in *Inst) inline(fn *ssa.Function, args []Val, bindings []Val, st *State, pos token.Pos) []Val {
	e := in.e
	if in.depth > 6 {
		e.fail("inlining too deep at %s", fn.Name())
	}
	e.inlined[fn.String()] = true
	sub := e.newInst(fn, in)
	sub.callPos = pos
	sub.recvNonNil = true
	if c := e.W.contracts[funcKey(fn)]; c != nil && c.Kind == "func" && fn.Parent() != nil {
		sub.con = c // closures inlined into their parent use their own contract for loop invariants
	}
	if len(args) != len(fn.Params) {
		e.fail("inline %s: %d args for %d params", fn.Name(), len(args), len(fn.Params))
	}
	for i, p := range fn.Params {
		v := args[i]
		if v.Ty == nil {
			v.Ty = p.Type()
		}
		sub.vals[p] = v
	}
	for i, fv := range fn.FreeVars {
		if i < len(bindings) {
			sub.vals[fv] = bindings[i]
		}
	}
	sub.run(st)
	// deferred calls inside inlined functions are run at their RunDefers
	return in.joinReturns(sub, fn, st)
}

// joinReturns merges the return points of sub into st.
func (in *Inst) joinReturns(sub *Inst, fn *ssa.Function, st *State) []Val {
	e := in.e
	if len(sub.rets) == 0 {
		st.reach = "false"
		var rs []Val
		res := fn.Signature.Results()
		for i := 0; i < res.Len(); i++ {
			rs = append(rs, e.zeroVal(res.At(i).Type()))
		}
		return rs
	}
	if len(sub.rets) == 1 {
		r := sub.rets[0]
		st.ep, st.ov, st.reach = r.st.ep, r.st.ov, r.st.reach
		return r.results
	}
	ep := &Epoch{id: e.newEpoch(), kind: epMerge, memo: map[string]string{}, enc: e}
	var gs []string
	for _, r := range sub.rets {
		ep.preds = append(ep.preds, r.st)
		ep.guards = append(ep.guards, r.st.reach)
		gs = append(gs, r.st.reach)
	}
	st.ep = ep
	st.ov = map[string]string{}
	st.reach = e.define("reach", "Bool", sOr(gs...))
	var rs []Val
	res := fn.Signature.Results()
	for i := 0; i < res.Len(); i++ {
		var vs []Val
		for _, r := range sub.rets {
			vs = append(vs, r.results[i])
		}
		rs = append(rs, e.mergeVals(fmt.Sprintf("%s!ret%d", sub.prefix, i), res.At(i).Type(), vs, gs))
	}
	return rs
}

// ---------------------------------------------------------------------------
// Defer
// ---------------------------------------------------------------------------

// initDefers: every defer site of the function starts unregistered.
func (in *Inst) initDefers(st *State) {
	e := in.e
	for _, b := range in.fn.Blocks {
		for _, ins := range b.Instrs {
			if d, ok := ins.(*ssa.Defer); ok {
				ds := &deferSite{instr: d, inst: in}
				ds.flag = fmt.Sprintf("L:%s!defer%d", in.prefix, len(e.deferSites))
				e.regComp(ds.flag, "Bool")
				st.set(ds.flag, "false")
				e.deferSites = append(e.deferSites, ds)
			}
		}
	}
}

func (in *Inst) deferInstr(x *ssa.Defer, st *State) {
	e := in.e
	for _, lp := range in.loops {
		if lp.blocks[x.Block()] {
			e.fail("defer inside a loop in %s", in.fn.Name())
		}
	}
	var ds *deferSite
	for _, d := range e.deferSites {
		if d.inst == in && d.instr == x {
			ds = d
		}
	}
	if ds == nil {
		e.fail("unregistered defer site")
	}
	c := &x.Call
	if c.IsInvoke() {
		ds.fnVal = in.val(c.Value, st)
	} else if _, ok := c.Value.(*ssa.Builtin); !ok {
		ds.fnVal = in.val(c.Value, st)
	}
	ds.args = nil
	for _, a := range c.Args {
		ds.args = append(ds.args, in.val(a, st))
	}
	st.set(ds.flag, "true")
}

// retIndex: source-order index of a return instruction of fn.
func retIndex(fn *ssa.Function, ret *ssa.Return) int {
	n := 0
	for _, b := range fn.Blocks {
		for _, ins := range b.Instrs {
			if r, ok := ins.(*ssa.Return); ok && r != ret && r.Pos() < ret.Pos() {
				n++
			}
		}
	}
	return n
}

func (in *Inst) runDefers(st *State) {
	e := in.e
	if in.parent == nil && e.curBlk != nil {
		for _, ins := range e.curBlk.Instrs {
			if r, ok := ins.(*ssa.Return); ok {
				e.curRet, e.curRetPos = retIndex(in.fn, r), r.Pos()
			}
		}
		defer func() { e.curRet = -1 }()
	}
	for i := len(e.deferSites) - 1; i >= 0; i-- {
		ds := e.deferSites[i]
		if ds.inst != in {
			continue
		}
		flag := st.get(ds.flag)
		if flag == "false" {
			continue
		}
		// run the deferred call under flag; merge with the skip path
		skip := st.clone()
		skip.reach = e.define("reach", "Bool", sAnd(st.reach, sNot(flag)))
		run := st.clone()
		run.reach = e.define("reach", "Bool", sAnd(st.reach, flag))
		in.deferredCall(ds, run)
		if flag == "true" {
			st.ep, st.ov, st.reach = run.ep, run.ov, run.reach
			continue
		}
		ep := &Epoch{id: e.newEpoch(), kind: epMerge, memo: map[string]string{}, enc: e,
			preds: []*State{run, skip}, guards: []string{run.reach, skip.reach}}
		st.ep = ep
		st.ov = map[string]string{}
		st.reach = e.define("reach", "Bool", sOr(run.reach, skip.reach))
	}
}

// deferredClauses: assert/ghostset clauses that name a deferred call apply when it runs.
func (in *Inst) deferredClauses(ds *deferSite, st *State, after bool) {
	top := in.e.top
	if top == nil || top.con == nil || st.reach == "false" {
		return
	}
	name := calleeName(&ds.instr.Call)
	con := top.con
	blk := in.e.curBlk
	for i, ca := range con.Asserts {
		if !calleeIs(&ds.instr.Call, ca.Callee) || ca.After != after || ca.Ordinal >= 0 {
			continue
		}
		env := top.newEnv(st)
		if blk != nil {
			env.atBlock = blk
			env.atIdx = len(blk.Instrs)
		}
		t := top.specBool(ca.Clause.Expr, env)
		when := "before"
		if after {
			when = "after"
		}
		site := "deferred"
		if in.e.curRet >= 0 {
			site += fmt.Sprintf("@ret%d", in.e.curRet)
		}
		o := in.e.oblige("assert", fmt.Sprintf("%s:%s#%s/%d", when, name, site, i), ds.instr.Pos(), st.reach, t)
		o.Top = true
		o.Prop = ca.Clause.Prop
	}
	for _, gu := range con.Ghosts {
		if !calleeIs(&ds.instr.Call, gu.Callee) || gu.Ordinal >= 0 || gu.Before == after {
			continue
		}
		env := top.newEnv(st)
		if blk != nil {
			env.atBlock = blk
			env.atIdx = len(blk.Instrs)
		}
		v := env.eval(gu.Expr)
		top.ghostAssign(gu, env, v, st)
	}
}

func (in *Inst) deferredCall(ds *deferSite, st *State) {
	in.deferredClauses(ds, st, false)
	defer in.deferredClauses(ds, st, true)
	e := in.e
	c := &ds.instr.Call
	if b, ok := c.Value.(*ssa.Builtin); ok {
		_ = b
		return
	}
	if c.IsInvoke() {
		args := append([]Val{ds.fnVal}, ds.args...)
		if con := e.W.ifaceContract(c); con != nil {
			sig := c.Method.Type().(*types.Signature)
			in.applyContract(con, args, sig, c.Value.Type(), st, ds.instr.Pos(), sig.Results())
			return
		}
		if !e.abstract {
			e.fail("deferred interface call needs a contract in %s", in.fn.Name())
		}
		in.havocAll(st)
		return
	}
	if ci := in.closureOf(c.Value); ci != nil {
		if cc, ok := e.closures[c.Value]; ok {
			ci = cc
		}
		in.inline(ci.fn, ds.args, ci.bindings, st, ds.instr.Pos())
		return
	}
	callee := c.StaticCallee()
	if callee == nil {
		if !e.abstract {
			e.fail("deferred call of function value in %s", in.fn.Name())
		}
		in.havocAll(st)
		return
	}
	if con := e.W.contractFor(callee); con != nil {
		if con.Sig == nil {
			con.Sig = callee.Signature
		}
		in.applyContract(con, ds.args, callee.Signature, nil, st, ds.instr.Pos(), callee.Signature.Results())
		return
	}
	if e.W.inlinable(callee, in.depth) {
		in.inline(callee, ds.args, nil, st, ds.instr.Pos())
		return
	}
	if !e.abstract {
		e.fail("deferred call of %s needs a contract", callee.Name())
	}
	e.note("abstract mode: deferred call of " + callee.String() + " havocs all non-ghost state")
	in.havocAll(st)
}

// ---------------------------------------------------------------------------
// Contract application at a call site
// ---------------------------------------------------------------------------

func (w *World) funcValueContract(t types.Type) *Contract {
	if n, ok := t.(*types.Named); ok && n.Obj().Pkg() != nil {
		return w.contracts[n.Obj().Pkg().Path()+"."+n.Obj().Name()]
	}
	return nil
}

func (in *Inst) calleeEnv(con *Contract, args []Val, sig *types.Signature, st *State) *SpecEnv {
	env := in.newEnv(st)
	env.pkg = con.Pkg
	env.noLocals = true
	env.callee = true
	env.old = st
	// parameter names: contract header, else signature
	var names []string
	if con.Pure {
		return env
	}
	if len(con.Params) > 0 {
		names = con.Params
	} else {
		if sig.Recv() != nil {
			names = append(names, sig.Recv().Name())
		}
		for i := 0; i < sig.Params().Len(); i++ {
			names = append(names, sig.Params().At(i).Name())
		}
	}
	var ptypes []types.Type
	if sig.Recv() != nil {
		ptypes = append(ptypes, sig.Recv().Type())
	}
	for i := 0; i < sig.Params().Len(); i++ {
		ptypes = append(ptypes, sig.Params().At(i).Type())
	}
	if len(names) != len(args) {
		in.e.fail("contract %s: %d parameter names for %d arguments", con.Key, len(names), len(args))
	}
	for i, n := range names {
		v := args[i]
		if v.Ty == nil && i < len(ptypes) {
			v.Ty = ptypes[i]
		}
		if i < len(ptypes) && v.K == KRef {
			// prefer the declared static type for field resolution when the actual is an interface
			if _, isIface := v.Ty.Underlying().(*types.Interface); isIface {
				v.Ty = ptypes[i]
			}
		}
		env.vars[n] = v
	}
	return env
}

func (in *Inst) applyContract(con *Contract, args []Val, sig *types.Signature, recvT types.Type, st *State, pos token.Pos, resT interface{}) Val {
	e := in.e
	if con.Trusted {
		e.note(fmt.Sprintf("assumed contract (%s) %s", con.Kind, con.Key))
	} else {
		e.calleesUsed[con.Key] = true
		if len(con.Props) == 0 {
			e.note("contract of " + con.Key + " is used at a call site but the function is not verified under any property: assumed")
		}
	}
	if sig.Recv() == nil && recvT != nil {
		// interface method: receiver is args[0]
		ps := []*types.Var{types.NewVar(token.NoPos, nil, "this", recvT)}
		for i := 0; i < sig.Params().Len(); i++ {
			ps = append(ps, sig.Params().At(i))
		}
		sig = types.NewSignatureType(nil, nil, nil, types.NewTuple(ps...), sig.Results(), sig.Variadic())
	}
	env := in.calleeEnv(con, args, sig, st)
	if con.AppendsRaw && e.top != nil && e.top.con != nil && e.top.con.CRLF && len(args) > 0 && args[0].K == KSlc {
		// a raw appender may only build a standalone buffer (nil first argument) inside a serialiser
		o := e.oblige("crlf-call", shortKey(con.Key), pos, st.reach, sEq(slcArr(args[0].T), "0"))
		o.Top = true
	}
	// requires
	for i, r := range con.Requires {
		if e.W.otherProp(r.Prop) {
			continue // hypothesis of another property's theorem: checked at call sites in that property's run
		}
		t := in.specBool(r.Expr, env)
		e.oblige("pre", fmt.Sprintf("%s#%d", shortKey(con.Key), i), pos, st.reach, t)
	}
	oldSt := st.clone()
	// havoc
	if con.ModifiesAll {
		in.havocAll(st)
		for _, mi := range con.Modifies {
			if mi.Kind == modGhost || mi.Kind == modField {
				in.havocItem(mi, env, oldSt, st)
			}
		}
	} else {
		for _, mi := range con.Modifies {
			in.havocItem(mi, env, oldSt, st)
		}
		if con.Allocates {
			a := st.get("alloc")
			na := e.freshConst("alloc", "Int")
			e.axiom(sApp("<=", a, na))
			st.set("alloc", na)
			m := st.get("Mem")
			nm := e.freshConst("Mem", e.compSort("Mem"))
			e.memVers = append(e.memVers, nm)
			e.assume(st.reach, fmt.Sprintf("(forall ((r Int)) (! (=> (< r %s) (= (select %s r) (select %s r))) :pattern ((select %s r))))", a, nm, m, nm))
			st.set("Mem", nm)
		}
	}
	// scratch ghosts: a repository function whose contract never mentions one is free to change it (its own
	// frame check is skipped for that ghost), so the caller forgets the value
	if con.Kind == "func" && !con.Trusted {
		names := e.W.ghostNamesOf(con)
		for gname, g := range e.W.ghosts {
			if _, reg := e.sorts["g:"+gname]; g.Scratch && reg && !names[gname] {
				st.set("g:"+gname, e.freshConst("g:"+gname, g.Sort))
			}
		}
	}
	// results
	res := sig.Results()
	var rs []Val
	post := in.calleeEnv(con, args, sig, st)
	post.old = oldSt
	for i := 0; i < res.Len(); i++ {
		rv := e.freshVal(fmt.Sprintf("%s!%s.r%d", in.prefix, shortKey(con.Key), i), res.At(i).Type(), st)
		rs = append(rs, rv)
		name := res.At(i).Name()
		if i < len(con.Results) {
			name = con.Results[i]
		}
		if name != "" && name != "_" {
			post.vars[name] = rv
		}
	}
	for _, en := range con.Ensures {
		if e.W.otherProp(en.Prop) {
			continue // proved in that property's run; not needed (and not assumed) here
		}
		if en.Assumed {
			e.note("assumed postcondition of " + con.Name + " used at a call (not checked against its body): " + en.Src)
		}
		if arg, ok := isFreshCall(en.Expr); ok && len(con.FreshExcept) > 0 {
			// the callee proves isFresh only for the fields it does not exempt (fresh-except): callers may assume
			// no more than that
			for _, ff := range post.freshOf(arg) {
				if _, exempt := con.FreshExcept[ff.Path]; exempt {
					continue
				}
				e.assume(st.reach, ff.Cond)
			}
			continue
		}
		t := in.specBool(en.Expr, post)
		e.assume(st.reach, t)
	}
	switch len(rs) {
	case 0:
		return Val{K: KUnit}
	case 1:
		return rs[0]
	}
	return Val{K: KStruct, Fs: rs}
}

func shortKey(k string) string {
	if i := strings.LastIndex(k, "/"); i >= 0 {
		return k[i+1:]
	}
	return k
}

func (in *Inst) havocGhost(name string, st *State) {
	e := in.e
	g, ok := e.W.ghosts[name]
	if !ok {
		e.fail("modifies names unknown ghost %q", name)
	}
	comp := "g:" + name
	e.regComp(comp, g.Sort)
	st.set(comp, e.freshConst("g!"+name, g.Sort))
}

// havocItem: forget what one modifies item names.
func (in *Inst) havocItem(mi ModItem, env *SpecEnv, oldSt, st *State) {
	e := in.e
	switch mi.Kind {
	case modGhost:
		in.havocGhost(mi.Name, st)
	case modType:
		for _, name := range e.W.typeComps(e, env.pkg, mi.Name) {
			st.set(name, e.freshConst("hv", e.compSort(name)))
		}
	case modMem:
		m := st.get("Mem")
		nm := e.freshConst("Mem", e.compSort("Mem"))
		e.memVers = append(e.memVers, nm)
		if len(mi.But) > 0 {
			pre := env.fork()
			pre.st = oldSt
			for _, bx := range mi.But {
				s := pre.eval(bx)
				a := s.T // an array id (ghost int or arr(x)) ...
				if s.K == KSlc {
					a = slcArr(s.T) // ... or the array of a slice
				}
				e.assume(st.reach, sEq(sSel(nm, a), sSel(m, a)))
			}
		}
		st.set("Mem", nm)
	case modBytes, modSpare:
		pre := env.fork()
		pre.st = oldSt
		s := pre.eval(mi.Expr)
		if s.K != KSlc {
			e.fail("modifies bytes(%s): not a slice", mi.Src)
		}
		lo := slcOff(s.T)
		hi := sAdd(slcOff(s.T), slcLen(s.T))
		if mi.Kind == modSpare {
			lo = hi
			hi = sAdd(slcOff(s.T), slcCap(s.T))
		}
		m := st.get("Mem")
		a2 := e.freshConst("hv.A", "(Array Int Int)")
		e.assume(st.reach, fmt.Sprintf("(forall ((j Int)) (! (=> (not (and (<= %s j) (< j %s))) (= (select %s j) (select %s j))) :pattern ((select %s j))))",
			lo, hi, a2, sSel(m, slcArr(s.T)), a2))
		nm := e.define("Mem", e.compSort("Mem"), sStore(m, slcArr(s.T), a2))
		// the same frame stated on the new memory itself, so that E-matching does not depend on
		// the array theory first reducing select-over-store
		e.assume(st.reach, fmt.Sprintf("(forall ((j Int)) (! (=> (not (and (<= %s j) (< j %s))) (= (select (select %s %s) j) (select %s j))) :pattern ((select (select %s %s) j))))",
			lo, hi, nm, slcArr(s.T), sSel(m, slcArr(s.T)), nm, slcArr(s.T)))
		st.set("Mem", nm)
	case modField:
		pre := env.fork()
		pre.st = oldSt
		in.havocPath(mi.Expr, pre, st)
	}
}

// havocPath: x.f (scalar field, struct field = all of it) or *p.
func (in *Inst) havocPath(x ast.Expr, pre *SpecEnv, st *State) {
	e := in.e
	switch n := x.(type) {
	case *ast.StarExpr:
		p := pre.eval(n.X)
		if p.K == KRef && p.Ty != nil {
			if pt, ok := p.Ty.Underlying().(*types.Pointer); ok {
				in.havocObject(p.T, pt.Elem(), st)
				return
			}
		}
		if p.K != KPtrField {
			e.fail("modifies *%s: not a scalar pointer", exprString(n.X))
		}
		in.havocLoc(p, st)
	case *ast.SelectorExpr:
		if n.Sel.Name == "_all" {
			base := pre.eval(n.X)
			T := base.Ty
			if p, ok := T.Underlying().(*types.Pointer); ok {
				T = p.Elem()
			}
			in.havocObject(base.T, T, st)
			return
		}
		base := pre.eval(n.X)
		if base.K != KRef || base.Ty == nil {
			e.fail("modifies %s: base is not a struct pointer", exprString(x))
		}
		T := base.Ty
		if p, ok := T.Underlying().(*types.Pointer); ok {
			T = p.Elem()
		}
		if gk, gf, ok := e.W.ghostFieldKey(T, n.Sel.Name); ok {
			comp := "gf:" + gk
			e.regComp(comp, "(Array Int "+gf.Sort+")")
			st.set(comp, e.define("st", e.compSort(comp), sStore(st.get(comp), base.T, e.freshConst("hv", gf.Sort))))
			return
		}
		stt, ok := T.Underlying().(*types.Struct)
		if !ok {
			e.fail("modifies %s: not a struct", exprString(x))
		}
		idx := findFieldPath(stt, n.Sel.Name)
		if idx == nil {
			e.fail("modifies %s: no such field", exprString(x))
		}
		cur, curT := base.T, T
		for k, i := range idx {
			p := e.fieldAddr(cur, curT, i)
			ft := curT.Underlying().(*types.Struct).Field(i).Type()
			if k == len(idx)-1 {
				switch ft.Underlying().(type) {
				case *types.Struct:
					in.havocObject(p.T, ft, st)
				case *types.Array:
					m := st.get("Mem")
					st.set("Mem", e.define("Mem", e.compSort("Mem"), sStore(m, p.T, e.freshConst("hv.A", "(Array Int Int)"))))
				default:
					in.havocLoc(p, st)
				}
				return
			}
			switch u := ft.Underlying().(type) {
			case *types.Struct:
				cur, curT = p.T, ft
			case *types.Pointer:
				v := pre.pureLoad(p, ft)
				cur, curT = v.T, u.Elem()
			}
		}
	default:
		e.fail("modifies %s: unsupported path", exprString(x))
	}
}

func (in *Inst) havocLoc(p Val, st *State) {
	e := in.e
	srt := e.compSort(p.F)
	if strings.HasPrefix(p.F, "L:") || strings.HasPrefix(p.F, "g:") {
		st.set(p.F, e.freshConst("hv", srt))
		return
	}
	// element sort of (Array Int X)
	el := strings.TrimSuffix(strings.TrimPrefix(srt, "(Array Int "), ")")
	c := e.freshConst("hv", el)
	switch el {
	case "Slc":
		e.slcInv(c, nil, nil)
	}
	st.set(p.F, e.define("st", srt, sStore(st.get(p.F), p.T, c)))
}

func (in *Inst) havocObject(r string, T types.Type, st *State) {
	e := in.e
	stt, ok := T.Underlying().(*types.Struct)
	if !ok {
		return
	}
	for i := 0; i < stt.NumFields(); i++ {
		p := e.fieldAddr(r, T, i)
		ft := stt.Field(i).Type()
		switch ft.Underlying().(type) {
		case *types.Struct:
			in.havocObject(p.T, ft, st)
		case *types.Array:
			m := st.get("Mem")
			st.set("Mem", e.define("Mem", e.compSort("Mem"), sStore(m, p.T, e.freshConst("hv.A", "(Array Int Int)"))))
		default:
			in.havocLoc(p, st)
		}
	}
}

// callAsserts: contract-file assertions attached to call sites of the function under contract.
func (in *Inst) callAsserts(x *ssa.Call, st *State, after bool) {
	var cons []*Contract
	if in.con != nil {
		cons = append(cons, in.con)
	}
	if top := in.e.top; top != nil && top != in && top.con != nil && top.con != in.con {
		cons = append(cons, top.con)
	}
	for _, con := range cons {
		in.callAssertsOf(con, con != in.con, x, st, after)
	}
}

func (in *Inst) callAssertsOf(con *Contract, inherited bool, x *ssa.Call, st *State, after bool) {
	if len(con.Asserts) == 0 && len(con.Ghosts) == 0 {
		return
	}
	if st.reach == "false" {
		return
	}
	name := calleeName(&x.Call)
	if name == "" {
		return
	}
	ord := in.callOrdinal(x, name)
	if inherited {
		ord = -2 // clauses of the enclosing function under contract apply to inlined code only when they name no ordinal
	}
	for i, ca := range con.Asserts {
		if !calleeIs(&x.Call, ca.Callee) || ca.After != after || (ca.Ordinal >= 0 && ca.Ordinal != ord) || in.e.W.otherProp(ca.Clause.Prop) || (ca.Direct && inherited) {
			continue
		}
		env := in.newEnv(st)
		env.atBlock = x.Block()
		env.atIdx = instrIndex(x)
		in.bindCallArgs(env, x, st)
		if after {
			env.atIdx++
			if v, ok := in.vals[x]; ok {
				env.vars["result"] = v
				if v.K == KStruct {
					for i, f := range v.Fs {
						env.vars[fmt.Sprintf("result%d", i)] = f
					}
				}
			}
		}
		// a clause that cannot be evaluated at this call (it names a local that is not in scope here, typically
		// after the calls of the function were rearranged) fails as this one obligation, not as the whole function
		t := func() (t string) {
			defer func() {
				if r := recover(); r != nil {
					if u, ok := r.(unsupported); ok && strings.Contains(u.msg, "unknown name") {
						in.e.note("clause `" + exprString(ca.Clause.Expr) + "` cannot be evaluated at a call of " + name + ": " + u.msg)
						t = "false"
						return
					}
					panic(r)
				}
			}()
			return in.specBool(ca.Clause.Expr, env)
		}()
		when := "before"
		if after {
			when = "after"
		}
		site := fmt.Sprint(ord)
		if inherited {
			site = "in:" + in.fn.Name()
			if in.e.curRet >= 0 {
				site += fmt.Sprintf("@ret%d", in.e.curRet)
			}
		}
		o := in.e.oblige("assert", fmt.Sprintf("%s:%s#%s/%d", when, name, site, i), x.Pos(), st.reach, t)
		o.Top = true
		o.Prop = ca.Clause.Prop
	}
	for _, gu := range con.Ghosts {
		if !calleeIs(&x.Call, gu.Callee) || (gu.Ordinal >= 0 && gu.Ordinal != ord) || gu.Before == after || (gu.Direct && inherited) {
			continue
		}
		env := in.newEnv(st)
		env.atBlock = x.Block()
		env.atIdx = instrIndex(x)
		in.bindCallArgs(env, x, st)
		if after {
			env.atIdx++
			if v, ok := in.vals[x]; ok {
				env.vars["result"] = v
				if v.K == KStruct {
					for i, f := range v.Fs {
						env.vars[fmt.Sprintf("result%d", i)] = f
					}
				}
			}
		}
		v := env.eval(gu.Expr)
		in.ghostAssign(gu, env, v, st)
	}
}

// ghostAssign: lhs is a ghost variable or x.ghostfield.
func (in *Inst) ghostAssign(gu GhostUpdate, env *SpecEnv, v Val, st *State) {
	e := in.e
	switch l := gu.Lhs.(type) {
	case *ast.IndexExpr:
		// ghost array element: name[idx] = v
		id, ok := l.X.(*ast.Ident)
		if !ok {
			e.fail("ghostset: unsupported array target %s", gu.Name)
		}
		g, ok := e.W.ghosts[id.Name]
		if !ok || g.Sort != "(Array Int Int)" {
			e.fail("ghostset: %s is not a ghost array", id.Name)
		}
		e.regComp("g:"+id.Name, g.Sort)
		idx := env.eval(l.Index)
		st.set("g:"+id.Name, e.define("gst", g.Sort, sStore(st.get("g:"+id.Name), idx.T, v.T)))
	case *ast.Ident:
		g, ok := e.W.ghosts[l.Name]
		if !ok {
			e.fail("ghostset: unknown ghost %s", l.Name)
		}
		e.regComp("g:"+l.Name, g.Sort)
		st.set("g:"+l.Name, v.T)
	case *ast.SelectorExpr:
		base := env.eval(l.X)
		if base.K != KRef || base.Ty == nil {
			e.fail("ghostset: base of %s is not a struct pointer", gu.Name)
		}
		T := base.Ty
		if p, ok := T.Underlying().(*types.Pointer); ok {
			T = p.Elem()
		}
		key, g, ok := e.W.ghostFieldKey(T, l.Sel.Name)
		if !ok {
			e.fail("ghostset: %s.%s is not a ghost field", structKey(T), l.Sel.Name)
		}
		comp := "gf:" + key
		e.regComp(comp, "(Array Int "+g.Sort+")")
		st.set(comp, e.define("st", e.compSort(comp), sStore(st.get(comp), base.T, v.T)))
	default:
		e.fail("ghostset: unsupported left-hand side %s", gu.Name)
	}
}

// calleeQName: Type.Method for method calls ("" otherwise); clauses may name a call either way.
func calleeQName(c *ssa.CallCommon) string {
	var t types.Type
	var m string
	if c.IsInvoke() {
		t, m = c.Value.Type(), c.Method.Name()
	} else if f := c.StaticCallee(); f != nil && f.Signature.Recv() != nil {
		t, m = f.Signature.Recv().Type(), f.Name()
	} else {
		return ""
	}
	if p, ok := t.Underlying().(*types.Pointer); ok {
		t = p.Elem()
	}
	if p, ok := t.(*types.Pointer); ok {
		t = p.Elem()
	}
	if n, ok := t.(*types.Named); ok {
		return n.Obj().Name() + "." + m
	}
	return ""
}

// calleeIs: does a clause's callee name (plain or Type.Method) denote this call?
func calleeIs(c *ssa.CallCommon, clause string) bool {
	return clause == calleeName(c) || (strings.Contains(clause, ".") && clause == calleeQName(c))
}

func calleeName(c *ssa.CallCommon) string {
	if c.IsInvoke() {
		return c.Method.Name()
	}
	if b, ok := c.Value.(*ssa.Builtin); ok {
		return b.Name()
	}
	if f := c.StaticCallee(); f != nil {
		return f.Name()
	}
	if n, ok := c.Value.Type().(*types.Named); ok {
		return n.Obj().Name()
	}
	// a function value held in a local variable that is assigned on several paths (a phi): named after the variable
	if ph, ok := c.Value.(*ssa.Phi); ok && ph.Comment != "" {
		return ph.Comment
	}
	// a function value of unnamed type loaded from a struct field: the event is named after the field
	if u, ok := c.Value.(*ssa.UnOp); ok && u.Op == token.MUL {
		if fa, ok := u.X.(*ssa.FieldAddr); ok {
			if pt, ok := fa.X.Type().Underlying().(*types.Pointer); ok {
				if st, ok := pt.Elem().Underlying().(*types.Struct); ok {
					return st.Field(fa.Field).Name()
				}
			}
		}
	}
	return c.Value.Name()
}

func instrIndex(x ssa.Instruction) int {
	for i, ins := range x.Block().Instrs {
		if ins == x {
			return i
		}
	}
	return 0
}

// callOrdinal: position of this call among calls of the same callee name, in source order.
func (in *Inst) callOrdinal(x *ssa.Call, name string) int {
	n := 0
	for _, b := range in.fn.Blocks {
		for _, ins := range b.Instrs {
			if c, ok := ins.(*ssa.Call); ok && c != x && calleeName(&c.Call) == name && c.Pos() < x.Pos() {
				n++
			}
		}
	}
	return n
}

// crlfCheck: in a function under `crlf-discipline`, bytes appended raw must be a constant free of
// CR/LF, the constant "\r\n" itself, or provably free of CR and LF.
func (in *Inst) crlfCheck(x *ssa.Call, xs Val, st *State) {
	e := in.e
	top := e.top
	if top == nil || top.con == nil || !top.con.CRLF {
		return
	}
	if sl, ok := x.Type().Underlying().(*types.Slice); !ok || kindOfType(sl.Elem()) != KInt {
		return
	}
	if c, ok := e.constContent(xs.T); ok {
		if c == "\r\n" || !strings.ContainsAny(c, "\r\n") {
			return
		}
	}
	key := in.srcKey(x.Pos())
	for _, ex := range top.con.CRLFExempt {
		if strings.Contains(key, ex) {
			e.note("crlf-discipline: append " + key + " is exempt (not covered by the property's list of inputs)")
			return
		}
	}
	m := sSel(st.get("Mem"), slcArr(xs.T))
	j := sym(e.fresh("q"))
	goal := fmt.Sprintf("(forall ((%s Int)) (! (=> (and (<= %s %s) (< %s %s)) (and (not (= (select %s %s) 13)) (not (= (select %s %s) 10)))) :pattern ((select %s %s))))",
		j, slcOff(xs.T), j, j, sAdd(slcOff(xs.T), slcLen(xs.T)), m, j, m, j, m, j)
	o := e.oblige("crlf", key, x.Pos(), st.reach, goal)
	o.Top = true
}

// ghostRelevant: does the contract speak about ghost state?
func (w *World) ghostRelevant(con *Contract) bool {
	if con.ghostRel != 0 {
		return con.ghostRel > 0
	}
	rel := false
	for _, mi := range con.Modifies {
		if mi.Kind == modGhost {
			rel = true
		}
		if mi.Kind == modField && w.mentionsGhost(mi.Expr) {
			rel = true
		}
	}
	for _, c := range con.Requires {
		if w.mentionsGhost(c.Expr) {
			rel = true
		}
	}
	for _, c := range con.Ensures {
		if w.mentionsGhost(c.Expr) {
			rel = true
		}
	}
	con.ghostRel = -1
	if rel {
		con.ghostRel = 1
	}
	return rel
}

func (w *World) mentionsGhost(x ast.Expr) bool {
	found := false
	ast.Inspect(x, func(n ast.Node) bool {
		switch v := n.(type) {
		case *ast.Ident:
			if _, ok := w.ghosts[v.Name]; ok {
				found = true
			}
			if m, ok := w.macros[v.Name]; ok && w.mentionsGhost(m.Body) {
				found = true
			}
		case *ast.SelectorExpr:
			for k := range w.ghosts {
				if strings.HasSuffix(k, "."+v.Sel.Name) && strings.Contains(k, ".") {
					found = true
				}
			}
		}
		return !found
	})
	return found
}

// abstractRelevant: can calling fn touch the ghost state named by the top-level contract?
func (w *World) abstractRelevant(fn *ssa.Function, top *Contract, depth int, seen map[*ssa.Function]bool) bool {
	if fn == nil || len(fn.Blocks) == 0 || depth > 6 || seen[fn] {
		return false
	}
	seen[fn] = true
	names := map[string]bool{}
	if top != nil {
		for _, a := range top.Asserts {
			if !a.Direct {
				names[a.Callee] = true
			}
		}
		for _, g := range top.Ghosts {
			if !g.Direct {
				names[g.Callee] = true
			}
		}
	}
	for _, b := range fn.Blocks {
		for _, ins := range b.Instrs {
			var c *ssa.CallCommon
			switch x := ins.(type) {
			case *ssa.Call:
				c = &x.Call
			case *ssa.Defer:
				c = &x.Call
			case *ssa.Go:
				c = &x.Call
			case *ssa.MakeClosure:
				if w.abstractRelevant(x.Fn.(*ssa.Function), top, depth+1, seen) {
					return true
				}
				continue
			default:
				continue
			}
			if names[calleeName(c)] || names[calleeQName(c)] {
				return true
			}
			if c.IsInvoke() {
				if con := w.ifaceContract(c); con != nil && w.ghostRelevantTo(con, top) {
					return true
				}
				continue
			}
			cal := c.StaticCallee()
			if cal == nil {
				continue
			}
			if con := w.contractFor(cal); con != nil {
				if w.ghostRelevantTo(con, top) {
					return true
				}
				continue
			}
			if cal.Pkg != nil && strings.HasPrefix(cal.Pkg.Pkg.Path(), "github.com/cloudwego/hertz") {
				if w.abstractRelevant(cal, top, depth+1, seen) {
					return true
				}
			}
		}
	}
	return false
}

// bindCallArgs: arg0, arg1, ... denote the call's operands (receiver first for interface calls).
func (in *Inst) bindCallArgs(env *SpecEnv, x *ssa.Call, st *State) {
	k := 0
	if x.Call.IsInvoke() {
		if v, ok := in.vals[x.Call.Value]; ok {
			env.vars["arg0"] = v
		}
		k = 1
	}
	for i, a := range x.Call.Args {
		func() {
			defer func() { recover() }()
			v := in.val(a, st)
			if v.Ty == nil {
				v.Ty = a.Type()
			}
			env.vars[fmt.Sprintf("arg%d", i+k)] = v
		}()
	}
}

// ghostNamesOf: the ghost variables and ghost fields a contract mentions anywhere.
func (w *World) ghostNamesOf(con *Contract) map[string]bool {
	if con.ghostNames != nil {
		return con.ghostNames
	}
	out := map[string]bool{}
	var visit func(x ast.Expr)
	visit = func(x ast.Expr) {
		if x == nil {
			return
		}
		ast.Inspect(x, func(n ast.Node) bool {
			switch v := n.(type) {
			case *ast.Ident:
				if _, ok := w.ghosts[v.Name]; ok {
					out[v.Name] = true
				}
				if m, ok := w.macros[v.Name]; ok {
					visit(m.Body)
				}
			case *ast.SelectorExpr:
				for k := range w.ghosts {
					if strings.HasSuffix(k, "."+v.Sel.Name) && strings.Contains(k, ".") {
						out[k] = true
					}
				}
			}
			return true
		})
	}
	for _, mi := range con.Modifies {
		if mi.Kind == modGhost {
			out[mi.Name] = true
		}
		visit(mi.Expr)
	}
	for _, c := range con.Requires {
		visit(c.Expr)
	}
	for _, c := range con.Ensures {
		visit(c.Expr)
	}
	for _, a := range con.Asserts {
		visit(a.Clause.Expr)
	}
	for _, g := range con.Ghosts {
		visit(g.Lhs)
		visit(g.Expr)
	}
	for _, l := range con.Loops {
		for _, iv := range l.Invariants {
			visit(iv.Expr)
		}
	}
	con.ghostNames = out
	return out
}

// ghostRelevantTo: does the callee's contract speak about ghost state the top-level contract uses?
func (w *World) ghostRelevantTo(con, top *Contract) bool {
	if top == nil {
		return w.ghostRelevant(con)
	}
	a, b := w.ghostNamesOf(con), w.ghostNamesOf(top)
	for k := range a {
		if b[k] {
			return true
		}
	}
	return false
}

// typeComps: the field components of the named struct type pkgname.Type.
func (w *World) typeComps(e *Enc, from *types.Package, name string) []string {
	parts := strings.SplitN(name, ".", 2)
	if len(parts) != 2 {
		e.fail("alltype needs pkg.Type, got %q", name)
	}
	path := w.resolvePkgName(from, parts[0])
	p := w.allPkgs[path]
	if p == nil {
		e.fail("alltype: unknown package %q", parts[0])
	}
	tn, ok := p.Types.Scope().Lookup(parts[1]).(*types.TypeName)
	if !ok {
		e.fail("alltype: unknown type %q", name)
	}
	return e.allComps(tn.Type())
}

// otherProp: is the clause tagged for a property other than the one being checked?
func (w *World) otherProp(tag string) bool {
	return tag != "" && w.curProp != "" && tag != w.curProp
}

// goEvent: a go statement is an event named "go" for the call-site clauses of the function under contract
// (`assert before go: ..`, `ghostset after go: ..`). The spawned goroutine itself is not modelled: this
// states what holds in the spawning thread at the moment of the spawn.
func (in *Inst) goEvent(x *ssa.Go, st *State) {
	if st.reach == "false" {
		return
	}
	var cons []*Contract
	if in.con != nil {
		cons = append(cons, in.con)
	}
	if top := in.e.top; top != nil && top != in && top.con != nil && top.con != in.con {
		cons = append(cons, top.con)
	}
	for _, con := range cons {
		for i, ca := range con.Asserts {
			if ca.Callee != "go" || ca.After || in.e.W.otherProp(ca.Clause.Prop) {
				continue
			}
			env := in.newEnv(st)
			env.atBlock = x.Block()
			env.atIdx = instrIndex(x)
			t := in.specBool(ca.Clause.Expr, env)
			o := in.e.oblige("assert", fmt.Sprintf("before:go/%d", i), x.Pos(), st.reach, t)
			o.Top = true
			o.Prop = ca.Clause.Prop
		}
		for _, gu := range con.Ghosts {
			if gu.Callee != "go" || gu.Before {
				continue
			}
			env := in.newEnv(st)
			env.atBlock = x.Block()
			env.atIdx = instrIndex(x)
			in.ghostAssign(gu, env, env.eval(gu.Expr), st)
		}
	}
}

// pseudoEvent: statements that are not calls but matter to typestates - `select` (argN: channel of case N),
// `maplookup` (arg0: the map, arg1: the key) and `mapupdate` (arg0: the map, arg1: key, arg2: value) - are events for
// `assert before <name>: ..` clauses of the function under contract (also inside an inlined closure). A clause naming
// an argument the statement does not have fails as that obligation.
func (in *Inst) pseudoEvent(name string, x ssa.Instruction, args []ssa.Value, st *State) {
	in.pseudoEventOrd(name, -1, x, args, st)
}

// pseudoEventOrd: ord >= 0 numbers the statement among its kind in source order (`assert before return#0: ..`).
func (in *Inst) pseudoEventOrd(name string, ord int, x ssa.Instruction, args []ssa.Value, st *State) {
	if st.reach == "false" {
		return
	}
	var cons []*Contract
	if in.con != nil {
		cons = append(cons, in.con)
	}
	if top := in.e.top; top != nil && top != in && top.con != nil && top.con != in.con {
		cons = append(cons, top.con)
	}
	for _, con := range cons {
		for i, ca := range con.Asserts {
			if ca.Callee != name || ca.After || in.e.W.otherProp(ca.Clause.Prop) || (ca.Ordinal >= 0 && ca.Ordinal != ord) {
				continue
			}
			env := in.newEnv(st)
			env.atBlock = x.Block()
			env.atIdx = instrIndex(x)
			for k, a := range args {
				func() {
					defer func() { recover() }()
					v := in.val(a, st)
					if v.Ty == nil {
						v.Ty = a.Type()
					}
					env.vars[fmt.Sprintf("arg%d", k)] = v
				}()
			}
			t := func() (t string) {
				defer func() {
					if r := recover(); r != nil {
						if u, ok := r.(unsupported); ok && strings.Contains(u.msg, "unknown name") {
							in.e.note("clause `" + exprString(ca.Clause.Expr) + "` cannot be evaluated at a " + name + " statement: " + u.msg)
							t = "false"
							if name == "return" && ca.Ordinal < 0 {
								// an un-numbered return clause applies to the returns at which its names are in scope
								t = "true"
							}
							return
						}
						panic(r)
					}
				}()
				return in.specBool(ca.Clause.Expr, env)
			}()
			site := "0"
			if con != in.con {
				site = "in:" + in.fn.Name()
			}
			o := in.e.oblige("assert", fmt.Sprintf("before:%s#%s/%d", name, site, i), x.Pos(), st.reach, t)
			o.Top = true
			o.Prop = ca.Clause.Prop
		}
	}
}

func (in *Inst) selectEvent(x *ssa.Select, st *State) {
	var args []ssa.Value
	for _, s := range x.States {
		args = append(args, s.Chan)
	}
	in.pseudoEvent("select", x, args, st)
}

// selectAfter: `ghostset after select: g = resultN` - result0 is the index of the case that fired, result1 whether
// a receive got a value, result(2+k) the value received by the k-th receive case.
func (in *Inst) selectAfter(x *ssa.Select, st *State) {
	if st.reach == "false" {
		return
	}
	var cons []*Contract
	if in.con != nil {
		cons = append(cons, in.con)
	}
	if top := in.e.top; top != nil && top != in && top.con != nil && top.con != in.con {
		cons = append(cons, top.con)
	}
	v, ok := in.vals[x]
	if !ok {
		return
	}
	for _, con := range cons {
		for _, gu := range con.Ghosts {
			if gu.Callee != "select" || gu.Before {
				continue
			}
			env := in.newEnv(st)
			env.atBlock = x.Block()
			env.atIdx = instrIndex(x) + 1
			env.vars["result"] = v
			if v.K == KStruct {
				for i, f := range v.Fs {
					env.vars[fmt.Sprintf("result%d", i)] = f
				}
			}
			in.ghostAssign(gu, env, env.eval(gu.Expr), st)
		}
	}
}
