package main

import (
	"fmt"
	"go/types"
	"sort"
	"strings"

	"golang.org/x/tools/go/ssa"
)

// FuncResult: everything generated for one function under contract.
type FuncResult struct {
	Key     string
	Con     *Contract
	Fn      *ssa.Function
	Enc     *Enc
	Err     string // generation failure (function outside subset, contract error)
	Pos     string
	SSASize int
	Callees []string
}

func newEnc(w *World, fn *ssa.Function, fname string) *Enc {
	return &Enc{W: w, fn: fn, fname: fname, declared: map[string]bool{}, sorts: map[string]string{},
		oblCount: map[string]int{}, strConst: map[string]string{}, ghostLoc: map[string]bool{}, subFuncs: map[string]bool{},
		assumptions: map[string]bool{}, inlined: map[string]bool{}, closures: map[ssa.Value]*closureInfo{},
		calleesUsed: map[string]bool{}}
}

// verifyFunc generates the obligations of one function against its contract.
func (w *World) verifyFunc(con *Contract) (res *FuncResult) {
	res = &FuncResult{Key: con.Key, Con: con}
	fn := w.findFunc(con)
	if fn == nil {
		res.Err = "binding: no function " + con.Key + " in the current source"
		return
	}
	res.Fn = fn
	res.Pos = w.fset.Position(fn.Pos()).String()
	for _, b := range fn.Blocks {
		res.SSASize += len(b.Instrs)
	}
	con.Sig = fn.Signature
	e := newEnc(w, fn, shortKey(con.Key))
	res.Enc = e
	e.abstract = con.Abstract
	e.safety = !con.Abstract && !con.NoSafety
	defer func() {
		if r := recover(); r != nil {
			if u, ok := r.(unsupported); ok {
				res.Err = "unsupported: " + u.msg
				return
			}
			panic(r)
		}
	}()
	e.curRet = -1
	in := e.newInst(fn, nil)
	in.con = con
	in.recvNonNil = true
	in.panicsAllowed = con.PanicsAllowed
	e.top = in
	// loop binding check
	// entry state
	ep := &Epoch{id: e.newEpoch(), kind: epEntry, memo: map[string]string{}, enc: e}
	st := &State{ep: ep, ov: map[string]string{}, reach: "true"}
	// parameters
	for _, p := range fn.Params {
		v := e.freshVal(in.name(p), p.Type(), st)
		v.Ty = p.Type()
		in.vals[p] = v
		e.modelParam(p.Name(), p.Type(), v, st)
	}
	for i, p := range fn.FreeVars {
		v := e.freshVal(in.name(p), p.Type(), st)
		v.Ty = p.Type()
		in.vals[p] = v
		// a captured variable that is assigned exactly once (before the closure exists) keeps its value across the
		// unknown calls of the abstract mode: its cell is pinned to the entry content
		if e.abstract && writeOnceCapture(fn, i) {
			if pt, ok := p.Type().Underlying().(*types.Pointer); ok {
				switch pt.Elem().Underlying().(type) {
				case *types.Struct, *types.Array, *types.Slice:
				default:
					comp := cellComp(pt.Elem())
					e.regComp(comp, "(Array Int "+sortOfType(pt.Elem())+")")
					e.pinned = append(e.pinned, pinnedCell{comp: comp, ref: v.T, val: sSel(st.get(comp), v.T)})
					e.note("captured variable " + p.Name() + " of " + fn.Name() + " is assigned once before the closure is created (checked on the enclosing function and its closures): unknown calls leave it alone")
				}
			}
		}
	}
	if fn.Signature.Recv() != nil && len(fn.Params) > 0 {
		if v := in.vals[fn.Params[0]]; v.K == KRef {
			e.assume("true", sNot(sEq(v.T, "0")))
			e.note("method receivers are assumed non-nil")
		}
	}
	// ghost variables start unconstrained (any history) unless the contract says otherwise
	in.entry = st.clone()
	// requires
	env := in.entryEnv(st)
	for _, r := range con.Requires {
		if w.otherProp(r.Prop) {
			continue
		}
		t := in.specBool(r.Expr, env)
		e.assume("true", t)
	}
	for _, gu := range con.Ghosts {
		if gu.Callee == "@entry" {
			in.ghostAssign(gu, env, env.eval(gu.Expr), st)
		}
	}
	// smoke: precondition satisfiable
	e.obls = append(e.obls, &Obligation{Name: e.fname + "#smoke:pre", Kind: "smoke", Step: len(e.steps), Reach: "true", Goal: "true", Smoke: true})
	in.run(st)
	e.curBlk = nil
	// loop contracts must bind
	for ord := range con.Loops {
		found := false
		for _, lp := range in.loops {
			if lp.ordinal == ord {
				found = true
			}
		}
		if !found {
			res.Err = fmt.Sprintf("binding: contract names loop %d of %s, which the current source does not have (or it is unreachable)", ord, con.Key)
			return
		}
	}
	// call-site clauses must bind: a clause that names a call the current source does not make is a contract
	// that silently says nothing (typically after the code was changed to call something else)
	if msg := unmatchedClause(w, fn, con); msg != "" {
		res.Err = "binding: " + msg
		return
	}
	// postconditions at every return
	for _, rp := range in.rets {
		ri := rp.idx
		renv := in.entryEnv(rp.st)
		renv.old = in.entry
		for i, name := range con.Results {
			if i < len(rp.results) && name != "_" {
				v := rp.results[i]
				if v.Ty == nil {
					v.Ty = fn.Signature.Results().At(i).Type()
				}
				renv.vars[name] = v
			}
		}
		if len(con.Results) == 0 {
			rs := fn.Signature.Results()
			for i := 0; i < rs.Len(); i++ {
				if n := rs.At(i).Name(); n != "" && n != "_" {
					renv.vars[n] = rp.results[i]
				}
			}
		}
		for i, en := range con.Ensures {
			if w.otherProp(en.Prop) {
				continue
			}
			if arg, ok := isFreshCall(en.Expr); ok {
				// one named obligation per field, generated from the struct's current field list
				for _, ff := range renv.freshOf(arg) {
					if why, ok := con.FreshExcept[ff.Path]; ok {
						e.note("C09: " + con.Name + " does not claim field " + ff.Path + ": " + why)
						continue
					}
					o := &Obligation{Name: fmt.Sprintf("%s#fresh:%s@ret%d", e.fname, ff.Path, ri), Kind: "fresh", Pos: rp.pos, Step: rp.step(e), Reach: rp.st.reach, Goal: ff.Cond, Top: true, Blk: rp.blk}
					e.obls = append(e.obls, o)
				}
				continue
			}
			if w.otherProp(en.Prop) {
				continue
			}
			if en.Assumed {
				e.note("assumed postcondition of " + con.Name + " (exported to callers, not checked against the body): " + en.Src)
				continue
			}
			t := in.specBool(en.Expr, renv)
			o := &Obligation{Name: fmt.Sprintf("%s#ensures:%d@ret%d", e.fname, i, ri), Kind: "ensures", Pos: rp.pos, Step: rp.step(e), Reach: rp.st.reach, Goal: t, Top: en.Top, Blk: rp.blk, Prop: en.Prop}
			e.obls = append(e.obls, o)
		}
		if !w.otherProp(con.FrameProp) {
			in.frameCheck(con, rp, ri)
		}
		// canary: false must not be provable at a reachable return (unless the contract declares it dead)
		if why, dead := con.DeadReturns[ri]; dead {
			e.note(fmt.Sprintf("%s: return %d is declared unreachable under the contracts: %s", con.Name, ri, why))
			e.obls = append(e.obls, &Obligation{Name: fmt.Sprintf("%s#dead@ret%d", e.fname, ri), Kind: "dead", Pos: rp.pos, Step: rp.step(e), Reach: rp.st.reach, Goal: "false", Blk: rp.blk})
			continue
		}
		e.obls = append(e.obls, &Obligation{Name: fmt.Sprintf("%s#canary@ret%d", e.fname, ri), Kind: "canary", Pos: rp.pos, Step: rp.step(e), Reach: rp.st.reach, Goal: "false", Canary: true, Blk: rp.blk})
	}
	if len(in.rets) == 0 {
		e.obls = append(e.obls, &Obligation{Name: e.fname + "#canary@end", Kind: "canary", Step: len(e.steps), Reach: "true", Goal: "false", Canary: true})
	}
	for k := range e.calleesUsed {
		res.Callees = append(res.Callees, k)
	}
	sort.Strings(res.Callees)
	return
}

// step index at which a return point's facts are complete: all steps (facts are guarded by reach).
func (rp retPoint) step(e *Enc) int { return len(e.steps) }

func (in *Inst) entryEnv(st *State) *SpecEnv {
	env := in.newEnv(st)
	env.noLocals = true
	for _, p := range in.fn.Params {
		env.vars[p.Name()] = in.vals[p]
	}
	if in.con != nil && len(in.con.Params) > 0 {
		for i, n := range in.con.Params {
			if i < len(in.fn.Params) {
				env.vars[n] = in.vals[in.fn.Params[i]]
			}
		}
	}
	for _, p := range in.fn.FreeVars {
		v := in.vals[p]
		t := p.Type().Underlying().(*types.Pointer).Elem()
		switch t.Underlying().(type) {
		case *types.Struct, *types.Array:
			env.vars[p.Name()] = v
		default:
			env.vars[p.Name()] = Val{K: KPtrField, T: v.T, F: v.F, Ty: p.Type()} // pointer; use *name
		}
	}
	return env
}

// modelParam records which terms describe a parameter in a counterexample.
func (e *Enc) modelParam(name string, t types.Type, v Val, st *State) {
	switch v.K {
	case KInt:
		e.modelDesc = append(e.modelDesc, modelVar{Name: name, Kind: "int", Terms: []string{v.T}, Ty: t.String()})
	case KBool:
		e.modelDesc = append(e.modelDesc, modelVar{Name: name, Kind: "bool", Terms: []string{v.T}, Ty: t.String()})
	case KSlc:
		terms := []string{slcLen(v.T), slcCap(v.T), slcArr(v.T), slcOff(v.T)}
		m := st.get("Mem")
		for i := 0; i < 48; i++ {
			terms = append(terms, sSel(sSel(m, slcArr(v.T)), sAdd(slcOff(v.T), fmt.Sprint(i))))
		}
		kind := "bytes"
		if _, ok := t.Underlying().(*types.Basic); ok {
			kind = "string"
		} else if sl, ok := t.Underlying().(*types.Slice); ok {
			if b, ok := sl.Elem().Underlying().(*types.Basic); !ok || b.Kind() != types.Uint8 {
				kind = "slice"
			}
		}
		e.modelDesc = append(e.modelDesc, modelVar{Name: name, Kind: kind, Terms: terms, Ty: t.String(), Arr: slcArr(v.T), Mem0: m})
	case KRef:
		e.modelDesc = append(e.modelDesc, modelVar{Name: name, Kind: "ref", Terms: []string{v.T}, Ty: t.String()})
	}
}

// frameCheck: at a return, everything not named by `modifies` is unchanged.
func (in *Inst) frameCheck(con *Contract, rp retPoint, ri int) {
	e := in.e
	if con.ModifiesAll || e.abstract {
		return
	}
	entry := in.entry
	env := in.entryEnv(entry)
	allocE := entry.get("alloc")
	// collect named locations
	type rng struct{ arr, lo, hi string }
	var ranges []rng
	fieldAt := map[string][]string{} // component -> refs
	ghostMod := map[string]bool{}
	var addObj func(r string, T types.Type)
	addObj = func(r string, T types.Type) {
		stt, ok := T.Underlying().(*types.Struct)
		if !ok {
			return
		}
		for i := 0; i < stt.NumFields(); i++ {
			p := e.fieldAddr(r, T, i)
			ft := stt.Field(i).Type()
			switch ft.Underlying().(type) {
			case *types.Struct:
				addObj(p.T, ft)
			case *types.Array:
				ranges = append(ranges, rng{p.T, "", ""})
			default:
				fieldAt[p.F] = append(fieldAt[p.F], p.T)
			}
		}
	}
	memAll := false
	typeAll := map[string]bool{}
	for _, mi := range con.Modifies {
		switch mi.Kind {
		case modType:
			for _, name := range e.W.typeComps(e, con.Pkg, mi.Name) {
				typeAll[name] = true
			}
		case modMem:
			memAll = true
			for bi, bx := range mi.But {
				// membut(x): the array of x is exactly as at entry
				sv := env.eval(bx)
				a := sv.T
				if sv.K == KSlc {
					a = slcArr(sv.T)
				}
				goal := sEq(sSel(rp.st.get("Mem"), a), sSel(entry.get("Mem"), a))
				e.obls = append(e.obls, &Obligation{Name: fmt.Sprintf("%s#frame:membut:%d@ret%d", e.fname, bi, ri), Kind: "frame", Pos: rp.pos, Step: len(e.steps), Reach: rp.st.reach, Goal: goal, Blk: rp.blk})
			}
		case modGhost:
			ghostMod["g:"+mi.Name] = true
		case modBytes, modSpare:
			s := env.eval(mi.Expr)
			lo := slcOff(s.T)
			hi := sAdd(slcOff(s.T), slcLen(s.T))
			if mi.Kind == modSpare {
				lo, hi = hi, sAdd(slcOff(s.T), slcCap(s.T))
			}
			ranges = append(ranges, rng{slcArr(s.T), lo, hi})
		case modField:
			in.modPathLocs(mi, env, fieldAt, addObj, func(arr string) { ranges = append(ranges, rng{arr, "", ""}) })
		}
	}
	// Mem
	memE, memR := entry.get("Mem"), rp.st.get("Mem")
	if memE != memR && !memAll {
		r := e.freshConst("fr.r", "Int")
		j := e.freshConst("fr.j", "Int")
		conds := []string{sApp("<", r, allocE), sApp("<", "0", r)}
		for _, g := range ranges {
			if g.lo == "" {
				conds = append(conds, sNot(sEq(r, g.arr)))
			} else {
				conds = append(conds, sNot(sAnd(sEq(r, g.arr), sApp("<=", g.lo, j), sApp("<", j, g.hi))))
			}
		}
		goal := sImp(sAnd(conds...), sEq(sSel(sSel(memR, r), j), sSel(sSel(memE, r), j)))
		e.obls = append(e.obls, &Obligation{Name: fmt.Sprintf("%s#frame:Mem@ret%d", e.fname, ri), Kind: "frame", Pos: rp.pos, Step: len(e.steps), Reach: rp.st.reach, Goal: goal, Blk: rp.blk})
	}
	var comps []string
	for name := range e.sorts {
		comps = append(comps, name)
	}
	sort.Strings(comps)
	for _, name := range comps {
		if strings.HasPrefix(name, "L:") {
			continue
		}
		ce, cr := entry.get(name), rp.st.get(name)
		if ce == cr || typeAll[name] {
			continue
		}
		if strings.HasPrefix(name, "g:") {
			if gv := e.W.ghosts[name[2:]]; gv != nil && gv.Scratch && !e.W.ghostNamesOf(con)[name[2:]] {
				continue // callers treat this function as changing it (see applyContract)
			}
			if !ghostMod[name] {
				e.obls = append(e.obls, &Obligation{Name: fmt.Sprintf("%s#frame:%s@ret%d", e.fname, name, ri), Kind: "frame", Pos: rp.pos, Step: len(e.steps), Reach: rp.st.reach, Goal: sEq(ce, cr), Blk: rp.blk})
			}
			continue
		}
		r := e.freshConst("fr.r", "Int")
		// only objects that existed at entry count: the owner (root) of r was allocated before
		conds := []string{sApp("<", sApp("root", r), allocE)}
		for _, x := range fieldAt[name] {
			conds = append(conds, sNot(sEq(r, x)))
		}
		goal := sImp(sAnd(conds...), sEq(sSel(cr, r), sSel(ce, r)))
		e.obls = append(e.obls, &Obligation{Name: fmt.Sprintf("%s#frame:%s@ret%d", e.fname, name, ri), Kind: "frame", Pos: rp.pos, Step: len(e.steps), Reach: rp.st.reach, Goal: goal, Blk: rp.blk})
	}
}

// unmatchedClause: the first call-site clause of con (for the property being checked) whose callee name matches
// no call in fn, its closures or the repository functions reachable from it, or whose ordinal exceeds the
// number of such calls written in fn itself.
func unmatchedClause(w *World, fn *ssa.Function, con *Contract) string {
	names := map[string]bool{}
	seen := map[*ssa.Function]bool{fn: true}
	direct := map[string]int{}
	for _, b := range fn.Blocks {
		collectCallNames(b.Instrs, names, seen, 0)
		for _, ins := range b.Instrs {
			if _, ok := ins.(*ssa.Return); ok {
				direct["return"]++
			}
			if c, ok := ins.(*ssa.Call); ok {
				direct[calleeName(&c.Call)]++
				if qn := calleeQName(&c.Call); qn != "" {
					direct[qn]++
				}
			}
		}
	}
	check := func(kind, callee string, ord int, prop string) string {
		if callee == "@entry" || w.otherProp(prop) {
			return ""
		}
		if !names[callee] {
			return fmt.Sprintf("%s clause of %s names the call %q, which the current source does not make", kind, con.Key, callee)
		}
		if ord >= 0 && direct[callee] <= ord {
			return fmt.Sprintf("%s clause of %s names call #%d of %q, but the function makes only %d such call(s)", kind, con.Key, ord, callee, direct[callee])
		}
		return ""
	}
	for _, ca := range con.Asserts {
		if ca.Forbid {
			continue
		}
		if m := check("assert", ca.Callee, ca.Ordinal, ca.Clause.Prop); m != "" {
			return m
		}
	}
	for _, gu := range con.Ghosts {
		if m := check("ghostset", gu.Callee, gu.Ordinal, ""); m != "" {
			return m
		}
	}
	return ""
}

// writeOnceCapture: free variable i of closure fn is bound to a local of the enclosing function that is stored at
// most once there and never stored to by any closure capturing it.
func writeOnceCapture(fn *ssa.Function, i int) bool {
	parent := fn.Parent()
	if parent == nil {
		return false
	}
	var cell ssa.Value
	for _, b := range parent.Blocks {
		for _, ins := range b.Instrs {
			if mc, ok := ins.(*ssa.MakeClosure); ok && mc.Fn == ssa.Value(fn) && i < len(mc.Bindings) {
				cell = mc.Bindings[i]
			}
		}
	}
	al, ok := cell.(*ssa.Alloc)
	if !ok || al.Referrers() == nil {
		return false
	}
	stores := 0
	for _, r := range *al.Referrers() {
		switch x := r.(type) {
		case *ssa.Store:
			if x.Addr == ssa.Value(al) {
				stores++
			} else {
				return false // the address itself is stored somewhere
			}
		case *ssa.MakeClosure:
			cf, ok := x.Fn.(*ssa.Function)
			if !ok {
				return false
			}
			for k, bnd := range x.Bindings {
				if bnd != ssa.Value(al) || k >= len(cf.FreeVars) || cf.FreeVars[k].Referrers() == nil {
					continue
				}
				for _, rr := range *cf.FreeVars[k].Referrers() {
					switch y := rr.(type) {
					case *ssa.Store:
						return false
					case *ssa.UnOp, *ssa.DebugRef:
					case *ssa.MakeClosure:
						_ = y
						return false // handed on to a nested closure: not followed
					default:
						return false
					}
				}
			}
		case *ssa.UnOp, *ssa.DebugRef:
		default:
			return false
		}
	}
	return stores <= 1
}
