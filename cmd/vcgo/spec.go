package main

import (
	"fmt"
	"go/ast"
	"go/constant"
	"go/token"
	"go/types"
	"strconv"
	"strings"

	"golang.org/x/tools/go/ssa"
)

// SpecEnv: evaluation context of a specification expression.
type SpecEnv struct {
	in       *Inst
	e        *Enc
	st       *State
	old      *State
	vars     map[string]Val
	phiNames map[string]bool
	atBlock  *ssa.BasicBlock
	atIdx    int
	pkg      *types.Package
	bound    map[string]string // quantifier-bound variables -> term
	fnScope  *ssa.Function     // function whose locals may be named
	noLocals bool
	inOld    bool
	callee   bool // environment of a callee's contract at a call site: names are the callee's parameters only
	anchor   *quantAnchor
}

type quantAnchor struct {
	v    string // bound variable name
	off  string // k = j - off
	memT string
}

func (in *Inst) newEnv(st *State) *SpecEnv {
	env := &SpecEnv{in: in, e: in.e, st: st, old: in.entry, vars: map[string]Val{}, phiNames: map[string]bool{}, bound: map[string]string{}, fnScope: in.fn}
	if in.fn.Pkg != nil {
		env.pkg = in.fn.Pkg.Pkg
	} else if in.fn.Parent() != nil && in.fn.Parent().Pkg != nil {
		env.pkg = in.fn.Parent().Pkg.Pkg
	}
	return env
}

func (env *SpecEnv) fork() *SpecEnv {
	n := *env
	n.vars = map[string]Val{}
	for k, v := range env.vars {
		n.vars[k] = v
	}
	n.bound = map[string]string{}
	for k, v := range env.bound {
		n.bound[k] = v
	}
	return &n
}

func (in *Inst) specBool(x ast.Expr, env *SpecEnv) string {
	v := env.eval(x)
	if v.K != KBool {
		in.e.fail("specification expression %s is not boolean", exprString(x))
	}
	return v.T
}

func (in *Inst) specVal(x ast.Expr, env *SpecEnv) Val { return env.eval(x) }

func exprString(x ast.Expr) string {
	return types.ExprString(x)
}

func (env *SpecEnv) fail(format string, args ...interface{}) {
	env.e.fail("spec: "+format, args...)
}

func (env *SpecEnv) eval(x ast.Expr) Val {
	e := env.e
	switch n := x.(type) {
	case *ast.ParenExpr:
		return env.eval(n.X)
	case *ast.BasicLit:
		switch n.Kind {
		case token.INT:
			v, err := strconv.ParseInt(n.Value, 0, 64)
			if err != nil {
				bi := constant.MakeFromLiteral(n.Value, token.INT, 0)
				return vInt(bi.ExactString())
			}
			return vInt(sInt(v))
		case token.CHAR:
			c, _, _, err := strconv.UnquoteChar(n.Value[1:len(n.Value)-1], '\'')
			if err != nil {
				env.fail("bad char literal %s", n.Value)
			}
			return vInt(sInt(int64(c)))
		case token.STRING:
			s, err := strconv.Unquote(n.Value)
			if err != nil {
				env.fail("bad string literal %s", n.Value)
			}
			return Val{K: KSlc, T: e.strConstSlc(s), Ty: types.Typ[types.String]}
		}
		env.fail("literal %s", n.Value)
	case *ast.Ident:
		return env.ident(n.Name)
	case *ast.UnaryExpr:
		v := env.eval(n.X)
		switch n.Op {
		case token.NOT:
			return vBool(sNot(v.T))
		case token.SUB:
			return vInt("(- " + v.T + ")")
		case token.AND:
			return v
		}
		env.fail("unary %s", n.Op)
	case *ast.StarExpr:
		p := env.eval(n.X)
		var t types.Type
		if p.Ty != nil {
			if pt, ok := p.Ty.Underlying().(*types.Pointer); ok {
				t = pt.Elem()
			}
		}
		if t == nil {
			env.fail("dereference of value without pointer type: %s", exprString(n.X))
		}
		return env.pureLoad(p, t)
	case *ast.BinaryExpr:
		return env.binary(n)
	case *ast.CallExpr:
		return env.call(n)
	case *ast.IndexExpr:
		s := env.eval(n.X)
		i := env.eval(n.Index)
		if s.K == KGArr {
			return vInt(sSel(s.T, i.T))
		}
		if s.K != KSlc {
			env.fail("index of non-slice %s", exprString(n.X))
		}
		var et types.Type = types.Typ[types.Uint8]
		if s.Ty != nil {
			if sl, ok := s.Ty.Underlying().(*types.Slice); ok {
				et = sl.Elem()
			}
		}
		return env.pureElem(slcArr(s.T), sAdd(slcOff(s.T), i.T), et)
	case *ast.SliceExpr:
		s := env.eval(n.X)
		if s.K != KSlc {
			env.fail("slice of non-slice")
		}
		lo, hi := "0", slcLen(s.T)
		if n.Low != nil {
			lo = env.eval(n.Low).T
		}
		if n.High != nil {
			hi = env.eval(n.High).T
		}
		return Val{K: KSlc, T: mkSlc(slcArr(s.T), sAdd(slcOff(s.T), lo), sSub(hi, lo), sSub(slcCap(s.T), lo)), Ty: s.Ty}
	case *ast.SelectorExpr:
		// package-qualified name?
		if id, ok := n.X.(*ast.Ident); ok {
			if _, isVar := env.lookupVar(id.Name); !isVar {
				if path := env.e.W.resolvePkgName(env.pkg, id.Name); path != "" && env.pkgHas(path, n.Sel.Name) {
					return env.pkgMember(path, n.Sel.Name)
				}
				// several imported packages may share a name (tracer/stats and internal/stats): take the direct
				// import of that name which has the member
				if env.pkg != nil {
					for _, imp := range env.pkg.Imports() {
						if imp.Name() == id.Name && env.pkgHas(imp.Path(), n.Sel.Name) {
							return env.pkgMember(imp.Path(), n.Sel.Name)
						}
					}
				}
			}
		}
		base := env.eval(n.X)
		return env.field(base, n.Sel.Name)
	}
	env.fail("unsupported expression %s (%T)", exprString(x), x)
	return Val{}
}

func (env *SpecEnv) pkgHas(path, name string) bool {
	p := env.e.W.allPkgs[path]
	return p != nil && p.Types.Scope().Lookup(name) != nil
}

func (env *SpecEnv) lookupVar(name string) (Val, bool) {
	if t, ok := env.bound[name]; ok {
		return vInt(t), true
	}
	if env.inOld && env.in != nil && !env.callee {
		// inside old(): a name that is both a loop variable and a parameter denotes the parameter's entry value
		for _, p := range env.in.fn.Params {
			if p.Name() == name {
				v := env.in.vals[p]
				if v.Ty == nil {
					v.Ty = p.Type()
				}
				return v, true
			}
		}
	}
	if v, ok := env.vars[name]; ok {
		return v, true
	}
	return Val{}, false
}

func (env *SpecEnv) ident(name string) Val {
	e := env.e
	if v, ok := env.lookupVar(name); ok {
		return v
	}
	switch name {
	case "true":
		return vBool("true")
	case "false":
		return vBool("false")
	case "nil":
		return Val{K: KRef, T: "0"}
	}
	if g, ok := e.W.ghosts[name]; ok {
		comp := "g:" + name
		e.regComp(comp, g.Sort)
		t := env.st.get(comp)
		if g.Sort == "Bool" {
			return vBool(t)
		}
		if g.Sort == "(Array Int Int)" {
			return Val{K: KGArr, T: t}
		}
		return vInt(t)
	}
	if !env.noLocals && env.in != nil {
		if v, ok := env.in.resolveLocal(name, env.atBlock, env.atIdx, env.st); ok {
			return v
		}
	}
	if env.pkg != nil {
		if env.pkgHas(env.pkg.Path(), name) {
			return env.pkgMember(env.pkg.Path(), name)
		}
	}
	env.fail("unknown name %q", name)
	return Val{}
}

// pkgMember: constants and variables of a package.
func (env *SpecEnv) pkgMember(path, name string) Val {
	e := env.e
	p := e.W.allPkgs[path]
	obj := p.Types.Scope().Lookup(name)
	switch o := obj.(type) {
	case *types.Const:
		switch o.Val().Kind() {
		case constant.Int:
			return Val{K: KInt, T: o.Val().ExactString(), Ty: o.Type()}
		case constant.Bool:
			if constant.BoolVal(o.Val()) {
				return vBool("true")
			}
			return vBool("false")
		case constant.String:
			return Val{K: KSlc, T: e.strConstSlc(constant.StringVal(o.Val())), Ty: o.Type()}
		}
	case *types.Var:
		sp := e.W.prog.Package(p.Types)
		if sp != nil {
			if g, ok := sp.Members[name].(*ssa.Global); ok {
				if cv, ok := e.W.constGlobal(e, g); ok {
					return cv
				}
				return env.pureLoad(e.globalAddr(g), o.Type())
			}
		}
	}
	env.fail("cannot use %s.%s in a specification", path, name)
	return Val{}
}

// pureLoad reads memory without generating definitions or assumptions.
func (env *SpecEnv) pureLoad(p Val, t types.Type) Val {
	e := env.e
	st := env.st
	switch p.K {
	case KPtrField:
		var term string
		if strings.HasPrefix(p.F, "L:") || strings.HasPrefix(p.F, "g:") {
			term = st.get(p.F)
		} else {
			term = sSel(st.get(p.F), p.T)
		}
		v := Val{K: kindOfType(t), T: term, Ty: t}
		if v.K == KPtrField {
			v.F = cellComp(t.Underlying().(*types.Pointer).Elem())
			e.regCell(t.Underlying().(*types.Pointer).Elem())
		}
		if len(env.bound) == 0 && env.in != nil {
			// heap well-formedness: every reference stored in the heap is allocated
			switch v.K {
			case KRef, KPtrField:
				e.assume(st.reach, sApp("<", v.T, st.get("alloc")))
			case KSlc:
				e.typeInvOnLoad(v, t, st)
			case KInt:
				e.typeInvOnLoad(v, t, st)
			}
		}
		return v
	case KPtrElem:
		return env.pureElem(p.T, p.I, t)
	case KRef:
		if s, ok := t.Underlying().(*types.Struct); ok {
			v := Val{K: KStruct, Ty: t}
			for i := 0; i < s.NumFields(); i++ {
				v.Fs = append(v.Fs, env.pureLoad(e.fieldAddr(p.T, t, i), s.Field(i).Type()))
			}
			return v
		}
	}
	env.fail("cannot dereference %v", p)
	return Val{}
}

func (env *SpecEnv) pureElem(arr, idx string, t types.Type) Val {
	e := env.e
	switch kindOfType(t) {
	case KStruct:
		return Val{K: KRef, T: sApp("elem", arr, idx), Ty: types.NewPointer(t)}
	case KInt, KRef:
		if e.isConstRef(arr) {
			return Val{K: kindOfType(t), T: sSel(sym("CS!"+arr), idx), Ty: t}
		}
		return Val{K: kindOfType(t), T: sSel(sSel(env.st.get("Mem"), arr), idx), Ty: t}
	}
	comp := e.elemComp(t)
	return Val{K: kindOfType(t), T: sSel(env.st.get(comp), sApp("elem", arr, idx)), Ty: t}
}

// field: x.f for a pointer-to-struct or struct value.
func (env *SpecEnv) field(base Val, name string) Val {
	e := env.e
	if base.K == KStruct {
		if st, ok := base.Ty.Underlying().(*types.Struct); ok {
			for i := 0; i < st.NumFields(); i++ {
				if st.Field(i).Name() == name {
					return base.Fs[i]
				}
			}
		}
		env.fail("no field %s in struct value", name)
	}
	if base.K != KRef || base.Ty == nil {
		env.fail("field %s of a value without struct pointer type (%v)", name, base)
	}
	T := base.Ty
	if p, ok := T.Underlying().(*types.Pointer); ok {
		T = p.Elem()
	}
	// ghost field?
	if gk, gf, ok := e.W.ghostFieldKey(T, name); ok {
		comp := "gf:" + gk
		e.regComp(comp, "(Array Int "+gf.Sort+")")
		t := sSel(env.st.get(comp), base.T)
		if gf.Sort == "Bool" {
			return vBool(t)
		}
		return vInt(t)
	}
	st, ok := T.Underlying().(*types.Struct)
	if !ok {
		env.fail("field %s of non-struct type %s", name, T)
	}
	// direct or promoted field
	obj, index, _ := types.LookupFieldOrMethod(T, true, env.pkgOf(T), name)
	if obj == nil {
		// unexported field of another package: look through structure by name
		index = findFieldPath(st, name)
		if index == nil {
			env.fail("no field %s in %s", name, T)
		}
	}
	cur := base.T
	curT := T
	for k, i := range index {
		cst := curT.Underlying().(*types.Struct)
		ft := cst.Field(i).Type()
		p := e.fieldAddr(cur, curT, i)
		if k == len(index)-1 {
			switch ft.Underlying().(type) {
			case *types.Struct, *types.Array:
				return Val{K: KRef, T: p.T, Ty: types.NewPointer(ft)}
			}
			return env.pureLoad(p, ft)
		}
		switch u := ft.Underlying().(type) {
		case *types.Struct:
			cur, curT = p.T, ft
		case *types.Pointer:
			v := env.pureLoad(p, ft)
			cur, curT = v.T, u.Elem()
		default:
			env.fail("bad embedded field path")
		}
	}
	return Val{}
}

func (env *SpecEnv) pkgOf(T types.Type) *types.Package {
	if n, ok := T.(*types.Named); ok {
		return n.Obj().Pkg()
	}
	return env.pkg
}

func findFieldPath(st *types.Struct, name string) []int {
	for i := 0; i < st.NumFields(); i++ {
		if st.Field(i).Name() == name {
			return []int{i}
		}
	}
	for i := 0; i < st.NumFields(); i++ {
		f := st.Field(i)
		if f.Embedded() {
			t := f.Type()
			if p, ok := t.Underlying().(*types.Pointer); ok {
				t = p.Elem()
			}
			if s2, ok := t.Underlying().(*types.Struct); ok {
				if sub := findFieldPath(s2, name); sub != nil {
					return append([]int{i}, sub...)
				}
			}
		}
	}
	return nil
}

func (env *SpecEnv) binary(n *ast.BinaryExpr) Val {
	a := env.eval(n.X)
	b := env.eval(n.Y)
	switch n.Op {
	case token.LAND:
		return vBool(sAnd(a.T, b.T))
	case token.LOR:
		return vBool(sOr(a.T, b.T))
	case token.EQL, token.NEQ:
		var eq string
		switch {
		case a.K == KSlc && (b.K == KRef && b.T == "0"):
			eq = sEq(slcArr(a.T), "0")
		case b.K == KSlc && (a.K == KRef && a.T == "0"):
			eq = sEq(slcArr(b.T), "0")
		case a.K == KSlc && b.K == KSlc:
			eq = env.bytesEq(a, b)
		case a.K == KStruct || b.K == KStruct:
			env.fail("comparison of struct values in specification")
		default:
			eq = sEq(a.T, b.T)
		}
		if n.Op == token.NEQ {
			eq = sNot(eq)
		}
		return vBool(eq)
	case token.LSS:
		return vBool(sApp("<", a.T, b.T))
	case token.LEQ:
		return vBool(sApp("<=", a.T, b.T))
	case token.GTR:
		return vBool(sApp(">", a.T, b.T))
	case token.GEQ:
		return vBool(sApp(">=", a.T, b.T))
	case token.ADD:
		return vInt(sAdd(a.T, b.T))
	case token.SUB:
		return vInt(sSub(a.T, b.T))
	case token.MUL:
		return vInt(sApp("*", a.T, b.T))
	case token.QUO:
		return vInt(sApp("div", a.T, b.T))
	case token.REM:
		return vInt(sApp("mod", a.T, b.T))
	}
	env.fail("binary operator %s", n.Op)
	return Val{}
}

// bytesEq: content equality of two byte strings (quantified, anchored at a's array).
func (env *SpecEnv) bytesEq(a, b Val) string {
	if a.T == b.T {
		return "true"
	}
	m := env.st.get("Mem")
	ma, mb := sSel(m, slcArr(a.T)), sSel(m, slcArr(b.T))
	d := sSub(slcOff(b.T), slcOff(a.T))
	j := env.e.fresh("j")
	jq := sym(j)
	all := fmt.Sprintf("(forall ((%s Int)) (! (=> (and (<= %s %s) (< %s (+ %s %s))) (= (select %s %s) (select %s (+ %s %s)))) :pattern ((select %s %s))))",
		jq, slcOff(a.T), jq, jq, slcOff(a.T), slcLen(a.T), ma, jq, mb, jq, d, ma, jq)
	return sAnd(sEq(slcLen(a.T), slcLen(b.T)), all)
}

func (env *SpecEnv) call(n *ast.CallExpr) Val {
	e := env.e
	fname := ""
	switch f := n.Fun.(type) {
	case *ast.Ident:
		fname = f.Name
	default:
		env.fail("call of %s in specification", exprString(n.Fun))
	}
	arg := func(i int) Val { return env.eval(n.Args[i]) }
	need := func(k int) {
		if len(n.Args) != k {
			env.fail("%s expects %d arguments", fname, k)
		}
	}
	switch fname {
	case "__imp":
		need(2)
		return vBool(sImp(arg(0).T, arg(1).T))
	case "__iff":
		need(2)
		return vBool(sEq(arg(0).T, arg(1).T))
	case "ite":
		need(3)
		c, a, b := arg(0), arg(1), arg(2)
		r := a
		r.T = sIte(c.T, a.T, b.T)
		return r
	case "len":
		need(1)
		return vInt(slcLen(arg(0).T))
	case "cap":
		need(1)
		return vInt(slcCap(arg(0).T))
	case "arr":
		need(1)
		return vInt(slcArr(arg(0).T))
	case "off":
		need(1)
		return vInt(slcOff(arg(0).T))
	case "int", "int64", "uint64", "uint", "int32", "int8":
		need(1)
		return vInt(arg(0).T)
	case "byte", "uint8":
		need(1)
		return vInt(sApp("mod", arg(0).T, "256"))
	case "atentry":
		need(1)
		if id, ok := n.Args[0].(*ast.Ident); ok {
			if v, ok := env.vars["@entry."+id.Name]; ok {
				return v
			}
			env.fail("atentry(%s): not a loop variable of the loop this invariant belongs to", id.Name)
		}
		env.fail("atentry expects a variable name")
		return Val{}
	case "old":
		need(1)
		sub := env.fork()
		sub.st = env.old
		sub.inOld = true
		return sub.eval(n.Args[0])
	case "extends":
		// extends(r, d): r has d (as it was in the old state) as a prefix, in place or in a fresh array
		need(2)
		r := arg(0)
		sub := env.fork()
		sub.st = env.old
		sub.inOld = true
		d := sub.eval(n.Args[1])
		mNow, mOld := sSel(env.st.get("Mem"), slcArr(r.T)), sSel(env.old.get("Mem"), slcArr(d.T))
		j := sym(e.fresh("q"))
		pre := fmt.Sprintf("(forall ((%s Int)) (! (=> (and (<= %s %s) (< %s %s)) (= (select %s %s) (select %s %s))) :pattern ((select %s %s))))",
			j, slcOff(r.T), j, j, sAdd(slcOff(r.T), slcLen(d.T)), mNow, j, mOld, sAdd(sSub(j, slcOff(r.T)), slcOff(d.T)), mNow, j)
		return vBool(sAnd(sApp(">=", slcLen(r.T), slcLen(d.T)),
			sOr(sAnd(sEq(slcArr(r.T), slcArr(d.T)), sEq(slcOff(r.T), slcOff(d.T)), sEq(slcCap(r.T), slcCap(d.T))),
				sAnd(sApp(">=", slcArr(r.T), env.old.get("alloc")), sEq(slcOff(r.T), "0"))),
			pre))
	case "spareOnly":
		// spareOnly(d): the array of d (old state) changed at most inside d's spare capacity
		need(1)
		sub := env.fork()
		sub.st = env.old
		sub.inOld = true
		d := sub.eval(n.Args[0])
		mNow, mOld := sSel(env.st.get("Mem"), slcArr(d.T)), sSel(env.old.get("Mem"), slcArr(d.T))
		j := sym(e.fresh("q"))
		lo, hi := sAdd(slcOff(d.T), slcLen(d.T)), sAdd(slcOff(d.T), slcCap(d.T))
		return vBool(fmt.Sprintf("(forall ((%s Int)) (! (=> (not (and (<= %s %s) (< %s %s))) (= (select %s %s) (select %s %s))) :pattern ((select %s %s))))",
			j, lo, j, j, hi, mNow, j, mOld, j, mNow, j))
	case "capOnly":
		// capOnly(d): the array of d (old state) changed at most inside d's capacity window
		need(1)
		sub := env.fork()
		sub.st = env.old
		sub.inOld = true
		d := sub.eval(n.Args[0])
		mNow, mOld := sSel(env.st.get("Mem"), slcArr(d.T)), sSel(env.old.get("Mem"), slcArr(d.T))
		j := sym(e.fresh("q"))
		lo, hi := slcOff(d.T), sAdd(slcOff(d.T), slcCap(d.T))
		return vBool(fmt.Sprintf("(forall ((%s Int)) (! (=> (not (and (<= %s %s) (< %s %s))) (= (select %s %s) (select %s %s))) :pattern ((select %s %s))))",
			j, lo, j, j, hi, mNow, j, mOld, j, mNow, j))
	case "within":
		// within(b, d): b lies inside d's capacity window (d evaluated in the old state) or in a fresh array
		need(2)
		b := arg(0)
		sub := env.fork()
		sub.st = env.old
		sub.inOld = true
		d := sub.eval(n.Args[1])
		return vBool(sOr(sApp(">=", slcArr(b.T), env.old.get("alloc")),
			sAnd(sEq(slcArr(b.T), slcArr(d.T)), sApp("<=", slcOff(d.T), slcOff(b.T)), sApp("<=", sAdd(slcOff(b.T), slcCap(b.T)), sAdd(slcOff(d.T), slcCap(d.T))))))
	case "matchAt":
		// matchAt(s, k, p): p occurs in s at position k (bounds are the caller's business)
		need(3)
		sv, kv, pv := arg(0), arg(1), arg(2)
		m := sSel(env.st.get("Mem"), slcArr(sv.T))
		if content, ok := e.constContent(pv.T); ok {
			var cs []string
			for i := 0; i < len(content); i++ {
				cs = append(cs, sEq(sSel(m, sAdd(sAdd(slcOff(sv.T), kv.T), fmt.Sprint(i))), fmt.Sprint(content[i])))
			}
			return vBool(sAnd(cs...))
		}
		mp := sSel(env.st.get("Mem"), slcArr(pv.T))
		j := sym(e.fresh("q"))
		base := sAdd(slcOff(sv.T), kv.T)
		return vBool(fmt.Sprintf("(forall ((%s Int)) (! (=> (and (<= %s %s) (< %s %s)) (= (select %s %s) (select %s %s))) :pattern ((select %s %s))))",
			j, base, j, j, sAdd(base, slcLen(pv.T)), m, j, mp, sAdd(sSub(j, base), slcOff(pv.T)), m, j))
	case "unchanged":
		need(1)
		sub := env.fork()
		sub.st = env.old
		a, b := env.eval(n.Args[0]), sub.eval(n.Args[0])
		if a.K == KSlc {
			return vBool(sEq(a.T, b.T))
		}
		return vBool(sEq(a.T, b.T))
	case "bytesOf":
		// bytesOf(s): a ghost array holding the bytes of s (as they are now) at indices 0..len(s)-1
		need(1)
		sv := arg(0)
		if len(env.bound) != 0 || env.in == nil {
			env.fail("bytesOf cannot be used under a quantifier")
		}
		a := e.freshConst("bytesOf", "(Array Int Int)")
		m := sSel(env.st.get("Mem"), slcArr(sv.T))
		j := sym(e.fresh("q"))
		e.assume(env.st.reach, fmt.Sprintf("(forall ((%s Int)) (! (=> (and (<= 0 %s) (< %s %s)) (= (select %s %s) (select %s (+ %s %s)))) :pattern ((select %s %s))))",
			j, j, j, slcLen(sv.T), a, j, m, j, slcOff(sv.T), a, j))
		return Val{K: KGArr, T: a}
	case "changedOnly":
		// changedOnly(arr, lo, hi): array arr differs from its old content at most at positions [lo, hi)
		need(3)
		a, lo, hi := arg(0), arg(1), arg(2)
		mNow, mOld := sSel(env.st.get("Mem"), a.T), sSel(env.old.get("Mem"), a.T)
		j := sym(e.fresh("q"))
		return vBool(fmt.Sprintf("(forall ((%s Int)) (! (=> (not (and (<= %s %s) (< %s %s))) (= (select %s %s) (select %s %s))) :pattern ((select %s %s))))",
			j, lo.T, j, j, hi.T, mNow, j, mOld, j, mNow, j))
	case "mkslice":
		// mkslice(arr, off, len): the byte window [off, off+len) of array arr
		need(3)
		a, o, l := arg(0), arg(1), arg(2)
		return Val{K: KSlc, T: mkSlc(a.T, o.T, l.T, l.T), Ty: types.NewSlice(types.Typ[types.Uint8])}
	case "wire":
		// wire(r, k): k-th byte of the (immutable, infinite) byte stream behind reader r
		need(2)
		return vInt(sApp("wire", arg(0).T, arg(1).T))
	case "isConcat":
		// isConcat(r, a, b): r == a ++ b element-wise (scalar or reference elements)
		need(3)
		r, a, b := arg(0), arg(1), arg(2)
		m := env.st.get("Mem")
		mr, ma, mb := sSel(m, slcArr(r.T)), sSel(m, slcArr(a.T)), sSel(m, slcArr(b.T))
		j := sym(e.fresh("q"))
		mid := sAdd(slcOff(r.T), slcLen(a.T))
		p1 := fmt.Sprintf("(forall ((%s Int)) (! (=> (and (<= %s %s) (< %s %s)) (= (select %s %s) (select %s %s))) :pattern ((select %s %s))))",
			j, slcOff(r.T), j, j, mid, mr, j, ma, sAdd(sSub(j, slcOff(r.T)), slcOff(a.T)), mr, j)
		j2 := sym(e.fresh("q"))
		p2 := fmt.Sprintf("(forall ((%s Int)) (! (=> (and (<= %s %s) (< %s %s)) (= (select %s %s) (select %s %s))) :pattern ((select %s %s))))",
			j2, mid, j2, j2, sAdd(mid, slcLen(b.T)), mr, j2, mb, sAdd(sSub(j2, mid), slcOff(b.T)), mr, j2)
		return vBool(sAnd(sEq(slcLen(r.T), sAdd(slcLen(a.T), slcLen(b.T))), p1, p2))
	case "sameSlice":
		need(2)
		a, b := arg(0), arg(1)
		return vBool(sAnd(sEq(slcArr(a.T), slcArr(b.T)), sEq(slcOff(a.T), slcOff(b.T)), sEq(slcLen(a.T), slcLen(b.T))))
	case "sameArray":
		need(2)
		return vBool(sEq(slcArr(arg(0).T), slcArr(arg(1).T)))
	case "mayAlias":
		// same backing array; two nil slices (array 0) share no memory
		need(2)
		return vBool(sAnd(sEq(slcArr(arg(0).T), slcArr(arg(1).T)), sNot(sEq(slcArr(arg(0).T), "0"))))
	case "disjoint":
		// disjoint(a, b): different arrays, or non-overlapping capacity ranges
		need(2)
		a, b := arg(0), arg(1)
		return vBool(sOr(sNot(sEq(slcArr(a.T), slcArr(b.T))),
			sApp("<=", sAdd(slcOff(a.T), slcCap(a.T)), slcOff(b.T)),
			sApp("<=", sAdd(slcOff(b.T), slcCap(b.T)), slcOff(a.T))))
	case "oldMemKept":
		// every array that existed at function entry (or at the call, in a callee environment) has its old content
		need(0)
		r := sym(e.fresh("q"))
		mNow, mOld := env.st.get("Mem"), env.old.get("Mem")
		return vBool(fmt.Sprintf("(forall ((%s Int)) (! (=> (and (< 0 %s) (< %s %s)) (= (select %s %s) (select %s %s))) :pattern ((select %s %s))))",
			r, r, r, env.old.get("alloc"), mNow, r, mOld, r, mNow, r))
	case "fresh":
		need(1)
		a := arg(0)
		t := a.T
		if a.K == KSlc {
			t = slcArr(a.T)
		}
		return vBool(sApp(">=", t, env.old.get("alloc")))
	case "allocated":
		need(1)
		a := arg(0)
		t := a.T
		if a.K == KSlc {
			t = slcArr(a.T)
		}
		return vBool(sApp("<", t, env.st.get("alloc")))
	case "isnil":
		need(1)
		a := arg(0)
		if a.K == KSlc {
			return vBool(sEq(slcArr(a.T), "0"))
		}
		return vBool(sEq(a.T, "0"))
	case "bytesEq":
		need(2)
		return vBool(env.bytesEq(arg(0), arg(1)))
	case "errIs":
		need(2)
		return vBool(sApp("err-is", arg(0).T, arg(1).T))
	case "forall", "exists":
		return env.quant(fname == "forall", n)
	case "forallT":
		// forallT(k, lo, hi, trigger, body): like forall with an explicit trigger term (avoids matching loops)
		if len(n.Args) != 5 {
			env.fail("forallT expects (k, lo, hi, trigger, body)")
		}
		id, ok := n.Args[0].(*ast.Ident)
		if !ok {
			env.fail("bound variable must be an identifier")
		}
		lo, hi := env.eval(n.Args[1]), env.eval(n.Args[2])
		sub := env.fork()
		j := sym(e.fresh("q"))
		sub.bound[id.Name] = j
		tr := sub.eval(n.Args[3])
		body := sub.eval(n.Args[4])
		if body.K != KBool {
			env.fail("quantifier body must be boolean")
		}
		return vBool(fmt.Sprintf("(forall ((%s Int)) (! (=> (and (<= %s %s) (< %s %s)) %s) :pattern (%s)))", j, lo.T, j, j, hi.T, body.T, tr.T))
	case "elemRef":
		// elemRef(s, i): reference of the i-th element of a slice of structs
		need(2)
		s, i := arg(0), arg(1)
		var et types.Type
		if s.Ty != nil {
			if sl, ok := s.Ty.Underlying().(*types.Slice); ok {
				et = sl.Elem()
			}
		}
		v := Val{K: KRef, T: sApp("elem", slcArr(s.T), sAdd(slcOff(s.T), i.T))}
		if et != nil {
			v.Ty = types.NewPointer(et)
		}
		return v
	}
	if sf, ok := e.W.specFuncs[fname]; ok {
		return env.specCall(sf, n)
	}
	if m, ok := e.W.macros[fname]; ok {
		if len(n.Args) != len(m.Params) {
			env.fail("macro %s expects %d arguments", fname, len(m.Params))
		}
		sub := env.fork()
		for i, p := range m.Params {
			sub.vars[p] = env.eval(n.Args[i])
		}
		if m.Pkg != nil {
			sub.pkg = m.Pkg
		}
		sub.noLocals = true
		return sub.eval(m.Body)
	}
	if env.in != nil {
		if v, ok := env.freshPred(fname, n); ok {
			return v
		}
	}
	env.fail("unknown specification function %s", fname)
	return Val{}
}

// specCall: application of a user-defined spec function.
func (env *SpecEnv) specCall(sf *SpecFunc, n *ast.CallExpr) Val {
	if len(n.Args) != len(sf.Params) {
		env.fail("%s expects %d arguments", sf.Name, len(sf.Params))
	}
	args := make([]string, len(sf.Params))
	offs := map[string]string{}
	vals := make([]Val, len(sf.Params))
	for i, p := range sf.Params {
		vals[i] = env.eval(n.Args[i])
		if p.Type == "mem" {
			if vals[i].K != KSlc {
				env.fail("%s: argument %d must be a byte slice", sf.Name, i)
			}
			args[i] = sSel(env.st.get("Mem"), slcArr(vals[i].T))
			offs[p.Name] = slcOff(vals[i].T)
		}
	}
	for i, p := range sf.Params {
		switch p.Type {
		case "mem":
		case "pos":
			args[i] = sAdd(offs[p.Of], vals[i].T)
		default:
			args[i] = vals[i].T
		}
	}
	t := sApp(sym("sf:"+sf.Name), args...)
	if sf.Result == "bool" {
		return vBool(t)
	}
	return vInt(t)
}

// quant: forall(k, lo, hi, body) / exists(k, lo, hi, body).
// The bound variable of the SMT quantifier is the absolute array position of the
// first s[k+c] (or position argument k+c of a spec function) found in the body, so
// that the trigger (select M j) / (sf ... j ...) contains the bound variable itself.
func (env *SpecEnv) quant(isForall bool, n *ast.CallExpr) Val {
	if len(n.Args) != 4 {
		env.fail("forall/exists expect (k, lo, hi, body)")
	}
	id, ok := n.Args[0].(*ast.Ident)
	if !ok {
		env.fail("bound variable must be an identifier")
	}
	lo := env.eval(n.Args[1])
	hi := env.eval(n.Args[2])
	k := id.Name
	var anchorX ast.Expr
	var anchorC ast.Expr
	neg := false
	shape := func(ix ast.Expr) (bool, ast.Expr, bool) {
		switch x := ix.(type) {
		case *ast.Ident:
			if x.Name == k {
				return true, nil, false
			}
		case *ast.BinaryExpr:
			if l, ok := x.X.(*ast.Ident); ok && l.Name == k && (x.Op == token.ADD || x.Op == token.SUB) && !mentions(x.Y, k) {
				return true, x.Y, x.Op == token.SUB
			}
		}
		return false, nil, false
	}
	anchorOld := false
	var insp func(x ast.Node) bool
	inOld := false
	insp = func(x ast.Node) bool {
		if anchorX != nil {
			return false
		}
		switch ie := x.(type) {
		case *ast.IndexExpr:
			if mentions(ie.X, k) {
				return true
			}
			if ok, c, ng := shape(ie.Index); ok {
				anchorX, anchorC, neg = ie.X, c, ng
				anchorOld = inOld
			}
		case *ast.CallExpr:
			if fid, ok := ie.Fun.(*ast.Ident); ok {
				if fid.Name == "old" && len(ie.Args) == 1 && !inOld {
					// an index expression under old() is anchored at the entry value of its slice
					inOld = true
					ast.Inspect(ie.Args[0], insp)
					inOld = false
					return false
				}
				if fid.Name == "matchAt" && len(ie.Args) == 3 && !mentions(ie.Args[0], k) {
					if ok, c, ng := shape(ie.Args[1]); ok {
						anchorX, anchorC, neg = ie.Args[0], c, ng
						return false
					}
				}
				if m, ok := env.e.W.macros[fid.Name]; ok && len(m.Params) == len(ie.Args) {
					// a macro that indexes one of its parameters by another (zx[zk]): applied to (x, k) it anchors
					// the quantifier like x[k] written out (without this the body gets no trigger at all)
					ast.Inspect(m.Body, func(y ast.Node) bool {
						if anchorX != nil {
							return false
						}
						mi, ok := y.(*ast.IndexExpr)
						if !ok {
							return true
						}
						xs, ok1 := mi.X.(*ast.Ident)
						ks, ok2 := mi.Index.(*ast.Ident)
						if !ok1 || !ok2 {
							return true
						}
						xi, ki := -1, -1
						for pi, pn := range m.Params {
							if pn == xs.Name {
								xi = pi
							}
							if pn == ks.Name {
								ki = pi
							}
						}
						if xi < 0 || ki < 0 || mentions(ie.Args[xi], k) {
							return true
						}
						if ok, c, ng := shape(ie.Args[ki]); ok {
							anchorX, anchorC, neg = ie.Args[xi], c, ng
							anchorOld = inOld
							return false
						}
						return true
					})
					if anchorX != nil {
						return false
					}
				}
				if sf, ok := env.e.W.specFuncs[fid.Name]; ok && len(sf.Params) == len(ie.Args) {
					for pi, p := range sf.Params {
						if p.Type != "pos" {
							continue
						}
						if ok, c, ng := shape(ie.Args[pi]); ok {
							for mi, mp := range sf.Params {
								if mp.Name == p.Of && !mentions(ie.Args[mi], k) {
									anchorX, anchorC, neg = ie.Args[mi], c, ng
								}
							}
						}
					}
				}
			}
		}
		return true
	}
	ast.Inspect(n.Args[3], insp)
	sub := env.fork()
	j := sym(env.e.fresh("q"))
	kTerm := j
	if anchorX != nil {
		var s Val
		if anchorOld {
			s = env.eval(&ast.CallExpr{Fun: ast.NewIdent("old"), Args: []ast.Expr{anchorX}})
		} else {
			s = env.eval(anchorX)
		}
		if s.K == KSlc {
			shift := slcOff(s.T)
			if anchorC != nil {
				c := env.eval(anchorC).T
				if neg {
					shift = sSub(shift, c)
				} else {
					shift = sAdd(shift, c)
				}
			}
			kTerm = sSub(j, shift)
		}
	}
	sub.bound[k] = kTerm
	body := sub.eval(n.Args[3])
	if body.K != KBool {
		env.fail("quantifier body must be boolean")
	}
	rng := sAnd(sApp("<=", lo.T, kTerm), sApp("<", kTerm, hi.T))
	pat := ""
	for _, tr := range findTriggers(body.T, j) {
		pat += " :pattern (" + tr + ")"
	}
	if isForall {
		if pat != "" {
			return vBool(fmt.Sprintf("(forall ((%s Int)) (! (=> %s %s)%s))", j, rng, body.T, pat))
		}
		return vBool(fmt.Sprintf("(forall ((%s Int)) (=> %s %s))", j, rng, body.T))
	}
	return vBool(fmt.Sprintf("(exists ((%s Int)) (and %s %s))", j, rng, body.T))
}

// findTrigger: applications of select or of spec functions that have the bound variable as a
// direct argument; all distinct ones are offered as alternative patterns.
func findTrigger(body, j string) string {
	ts := findTriggers(body, j)
	if len(ts) == 0 {
		return ""
	}
	return ts[0]
}

func findTriggers(body, j string) []string {
	x, err := parseSx(body)
	if err != nil {
		return nil
	}
	var sels, sfs []string
	seen := map[string]bool{}
	var walk func(x *sx)
	walk = func(x *sx) {
		if x.list == nil {
			return
		}
		h := x.head()
		if h == "forall" || h == "exists" {
			return
		}
		direct := false
		for _, c := range x.list[1:] {
			if c.list == nil && c.atom == j {
				direct = true
			}
		}
		if direct {
			t := x.String()
			if !seen[t] {
				if h == "select" {
					seen[t] = true
					sels = append(sels, t)
				} else if strings.HasPrefix(h, "|sf:") || h == "wire" {
					seen[t] = true
					sfs = append(sfs, t)
				}
			}
		}
		for _, c := range x.list {
			walk(c)
		}
	}
	walk(x)
	out := append(sels, sfs...)
	if len(out) > 4 {
		out = out[:4]
	}
	return out
}

func mentions(x ast.Expr, name string) bool {
	found := false
	ast.Inspect(x, func(n ast.Node) bool {
		if id, ok := n.(*ast.Ident); ok && id.Name == name {
			found = true
		}
		return !found
	})
	return found
}

// ---------------------------------------------------------------------------
// Local name resolution at a program point
// ---------------------------------------------------------------------------

func domDepth(b *ssa.BasicBlock) int {
	d := 0
	for x := b.Idom(); x != nil; x = x.Idom() {
		d++
	}
	return d
}

func (in *Inst) resolveLocal(name string, at *ssa.BasicBlock, atIdx int, st *State) (Val, bool) {
	fn := in.fn
	// parameters and free variables first (entry values)
	type cand struct {
		depth, idx int
		v          ssa.Value
		addr       bool
		obj        types.Object
	}
	var best *cand
	consider := func(c cand) {
		if best == nil || c.depth > best.depth || (c.depth == best.depth && c.idx > best.idx) {
			cc := c
			best = &cc
		}
	}
	if at != nil {
		for _, b := range fn.Blocks {
			if !(b == at || b.Dominates(at)) {
				continue
			}
			d := domDepth(b)
			for i, ins := range b.Instrs {
				if b == at && i >= atIdx {
					if _, isPhi := ins.(*ssa.Phi); !isPhi {
						break
					}
				}
				switch x := ins.(type) {
				case *ssa.Alloc:
					// an address-taken local lives in a cell: its current content is the variable's value (the
					// DebugRefs of its assignments name values that may be stale at this point)
					if x.Comment == name {
						if _, ok := in.vals[x]; ok {
							consider(cand{d + 1000, i, x, true, nil})
						}
					}
				case *ssa.Phi:
					if x.Comment == name {
						if _, ok := in.vals[x]; ok {
							consider(cand{d, -1, x, false, nil})
						}
					}
				case *ssa.DebugRef:
					if fv, isVar := x.Object().(*types.Var); isVar && fv.IsField() {
						// the selector of a field access: not a local of that name
						continue
					}
					if x.Object() != nil && x.Object().Name() == name {
						if _, isConst := x.X.(*ssa.Const); isConst {
							consider(cand{d, i, x.X, x.IsAddr, x.Object()})
						} else if _, ok := in.vals[x.X]; ok {
							consider(cand{d, i, x.X, x.IsAddr, x.Object()})
						} else if _, isG := x.X.(*ssa.Global); isG {
							consider(cand{d, i, x.X, x.IsAddr, x.Object()})
						}
					}
				}
			}
		}
	}
	if best != nil {
		v := in.val(best.v, st)
		if best.addr {
			t := best.v.Type().Underlying().(*types.Pointer).Elem()
			env := in.newEnv(st)
			switch t.Underlying().(type) {
			case *types.Struct, *types.Array:
				return v, true // name denotes the object itself
			}
			return env.pureLoad(v, t), true
		}
		if v.Ty == nil {
			v.Ty = best.v.Type()
		}
		return v, true
	}
	for _, p := range fn.Params {
		if p.Name() == name {
			v := in.val(p, st)
			if v.Ty == nil {
				v.Ty = p.Type()
			}
			return v, true
		}
	}
	for _, p := range fn.FreeVars {
		if p.Name() == name {
			v := in.val(p, st)
			t := p.Type().Underlying().(*types.Pointer).Elem()
			env := in.newEnv(st)
			switch t.Underlying().(type) {
			case *types.Struct, *types.Array:
				return v, true
			}
			return env.pureLoad(v, t), true
		}
	}
	return Val{}, false
}

// ---------------------------------------------------------------------------
// Spec functions -> SMT
// ---------------------------------------------------------------------------

func (w *World) specPrelude() string { return w.specSMT }

// specPreludeFor: definitions of the spec functions the query mentions (transitively).
// With dropQuant the defining axioms of recursive spec functions are omitted.
func (w *World) specPreludeFor(body string, dropQuant bool) string {
	need := map[string]bool{}
	var visit func(text string)
	visit = func(text string) {
		for _, name := range w.specOrder {
			if need[name] {
				continue
			}
			if strings.Contains(text, sym("sf:"+name)) {
				need[name] = true
				visit(w.specDefs[name])
			}
		}
	}
	visit(body)
	var b strings.Builder
	for _, name := range w.specOrder {
		if !need[name] {
			continue
		}
		for _, l := range strings.Split(w.specDefs[name], "\n") {
			if l == "" || (dropQuant && strings.HasPrefix(l, "(assert ") && hasQuantifier(l)) {
				continue
			}
			b.WriteString(l)
			b.WriteByte('\n')
		}
	}
	return b.String()
}

func (w *World) compileSpecFuncs() error {
	var all strings.Builder
	var firstErr error
	w.specDefs = map[string]string{}
	for _, name := range w.specOrder {
		sf := w.specFuncs[name]
		var b strings.Builder
		func() {
			defer func() {
				if r := recover(); r != nil {
					if u, ok := r.(unsupported); ok {
						if firstErr == nil {
							firstErr = fmt.Errorf("spec function %s: %s", sf.Name, u.msg)
						}
						return
					}
					panic(r)
				}
			}()
			enc := &Enc{W: w, declared: map[string]bool{}, sorts: map[string]string{}, oblCount: map[string]int{}, strConst: map[string]string{}, assumptions: map[string]bool{}, subFuncs: map[string]bool{}}
			env := &SpecEnv{e: enc, vars: map[string]Val{}, bound: map[string]string{}, pkg: sf.Pkg, noLocals: true, phiNames: map[string]bool{}}
			var params []string
			var names []string
			for _, p := range sf.Params {
				q := sym("p:" + p.Name)
				switch p.Type {
				case "mem":
					params = append(params, fmt.Sprintf("(%s (Array Int Int))", q))
					env.vars[p.Name] = Val{K: KSlc, T: "MEM:" + q}
				case "bool":
					params = append(params, fmt.Sprintf("(%s Bool)", q))
					env.vars[p.Name] = vBool(q)
				default:
					params = append(params, fmt.Sprintf("(%s Int)", q))
					env.vars[p.Name] = vInt(q)
				}
				names = append(names, q)
			}
			body := env.evalSpecBody(sf.Body, sf)
			for _, c := range enc.strList {
				if _, ok := w.specConsts[c]; !ok {
					w.specConsts[c] = enc.strConst[c]
					w.specConstList = append(w.specConstList, c)
				}
			}
			res := "Int"
			if sf.Result == "bool" {
				res = "Bool"
			}
			fn := sym("sf:" + sf.Name)
			if !sf.Rec {
				fmt.Fprintf(&b, "(define-fun %s (%s) %s %s)\n", fn, strings.Join(params, " "), res, body)
			} else {
				var sorts []string
				for _, p := range sf.Params {
					switch p.Type {
					case "mem":
						sorts = append(sorts, "(Array Int Int)")
					case "bool":
						sorts = append(sorts, "Bool")
					default:
						sorts = append(sorts, "Int")
					}
				}
				app := "(" + fn + " " + strings.Join(names, " ") + ")"
				fmt.Fprintf(&b, "(declare-fun %s (%s) %s)\n", fn, strings.Join(sorts, " "), res)
				fmt.Fprintf(&b, "(assert (forall (%s) (! (= %s %s) :pattern (%s))))\n", strings.Join(params, " "), app, body, app)
			}
		}()
		w.specDefs[name] = b.String()
		all.WriteString(b.String())
	}
	w.specSMT = all.String()
	return firstErr
}

// evalSpecBody evaluates a spec function body; mem parameters are inner arrays
// indexed by absolute positions.
func (env *SpecEnv) evalSpecBody(x ast.Expr, sf *SpecFunc) string {
	var ev func(x ast.Expr) Val
	ev = func(x ast.Expr) Val {
		switch n := x.(type) {
		case *ast.ParenExpr:
			return ev(n.X)
		case *ast.IndexExpr:
			if id, ok := n.X.(*ast.Ident); ok {
				if v, ok := env.vars[id.Name]; ok && strings.HasPrefix(v.T, "MEM:") {
					return vInt(sSel(v.T[4:], ev(n.Index).T))
				}
			}
		case *ast.CallExpr:
			if id, ok := n.Fun.(*ast.Ident); ok {
				if sf2, ok := env.e.W.specFuncs[id.Name]; ok {
					var args []string
					for i, a := range n.Args {
						if sf2.Params[i].Type == "mem" {
							aid, ok := a.(*ast.Ident)
							if !ok {
								env.fail("mem argument must be a parameter name")
							}
							args = append(args, env.vars[aid.Name].T[4:])
						} else {
							args = append(args, ev(a).T)
						}
					}
					t := sApp(sym("sf:"+sf2.Name), args...)
					if sf2.Result == "bool" {
						return vBool(t)
					}
					return vInt(t)
				}
				switch id.Name {
				case "ite":
					c, a, b := ev(n.Args[0]), ev(n.Args[1]), ev(n.Args[2])
					r := a
					r.T = sIte(c.T, a.T, b.T)
					return r
				case "__imp":
					return vBool(sImp(ev(n.Args[0]).T, ev(n.Args[1]).T))
				case "__iff":
					return vBool(sEq(ev(n.Args[0]).T, ev(n.Args[1]).T))
				}
			}
		case *ast.BinaryExpr:
			a, b := ev(n.X), ev(n.Y)
			switch n.Op {
			case token.LAND:
				return vBool(sAnd(a.T, b.T))
			case token.LOR:
				return vBool(sOr(a.T, b.T))
			case token.EQL:
				return vBool(sEq(a.T, b.T))
			case token.NEQ:
				return vBool(sNot(sEq(a.T, b.T)))
			case token.LSS:
				return vBool(sApp("<", a.T, b.T))
			case token.LEQ:
				return vBool(sApp("<=", a.T, b.T))
			case token.GTR:
				return vBool(sApp(">", a.T, b.T))
			case token.GEQ:
				return vBool(sApp(">=", a.T, b.T))
			case token.ADD:
				return vInt(sAdd(a.T, b.T))
			case token.SUB:
				return vInt(sSub(a.T, b.T))
			case token.MUL:
				return vInt(sApp("*", a.T, b.T))
			case token.QUO:
				return vInt(sApp("div", a.T, b.T))
			case token.REM:
				return vInt(sApp("mod", a.T, b.T))
			}
		case *ast.UnaryExpr:
			v := ev(n.X)
			if n.Op == token.NOT {
				return vBool(sNot(v.T))
			}
			if n.Op == token.SUB {
				return vInt("(- " + v.T + ")")
			}
		}
		return env.eval(x)
	}
	return ev(x).T
}

// fieldCompsOf: components named by a modifies item of field kind (static, by type).
func (w *World) fieldCompsOf(e *Enc, con *Contract, mi ModItem) []string {
	// resolved dynamically in applyContract; for loop scanning we approximate by
	// marking the components of the selected field's name in every struct type that
	// has such a field reachable from the expression's syntactic shape. The
	// syntactic shape is x.f1.f2...; we return the suffix-matching components already
	// registered plus those computed from the callee signature.
	sel, ok := mi.Expr.(*ast.SelectorExpr)
	if !ok {
		return nil
	}
	// find type of the root identifier from the callee signature
	root := sel
	var path []string
	var x ast.Expr = sel
	for {
		s, ok := x.(*ast.SelectorExpr)
		if !ok {
			break
		}
		path = append([]string{s.Sel.Name}, path...)
		x = s.X
		root = s
	}
	_ = root
	id, ok := x.(*ast.Ident)
	if !ok || con.Sig == nil {
		return nil
	}
	var T types.Type
	all := []*types.Var{}
	if con.Sig.Recv() != nil {
		all = append(all, con.Sig.Recv())
	}
	for i := 0; i < con.Sig.Params().Len(); i++ {
		all = append(all, con.Sig.Params().At(i))
	}
	for i, pn := range con.Params {
		if pn == id.Name && i < len(all) {
			T = all[i].Type()
		}
	}
	if T == nil {
		return nil
	}
	var out []string
	for k, fname := range path {
		if p, ok := T.Underlying().(*types.Pointer); ok {
			T = p.Elem()
		}
		st, ok := T.Underlying().(*types.Struct)
		if !ok {
			return out
		}
		if fname == "*" {
			out = append(out, e.allComps(T)...)
			return out
		}
		idx := findFieldPath(st, fname)
		if idx == nil {
			return out
		}
		for _, i := range idx[:len(idx)-1] {
			T = T.Underlying().(*types.Struct).Field(i).Type()
			if p, ok := T.Underlying().(*types.Pointer); ok {
				T = p.Elem()
			}
		}
		i := idx[len(idx)-1]
		name, ft := e.fieldComp(T, i)
		if k == len(path)-1 {
			switch ft.Underlying().(type) {
			case *types.Struct:
				out = append(out, e.allComps(ft)...)
			case *types.Array:
				out = append(out, "Mem")
			default:
				out = append(out, name)
			}
		}
		T = ft
	}
	return out
}

// allComps: every scalar component of struct type T (flattened).
func (e *Enc) allComps(T types.Type) []string {
	var out []string
	st, ok := T.Underlying().(*types.Struct)
	if !ok {
		return nil
	}
	for i := 0; i < st.NumFields(); i++ {
		name, ft := e.fieldComp(T, i)
		switch ft.Underlying().(type) {
		case *types.Struct:
			out = append(out, e.allComps(ft)...)
		case *types.Array:
		default:
			out = append(out, name)
		}
	}
	return out
}
