package main

import (
	"context"
	"encoding/hex"
	"encoding/json"
	"fmt"
	"go/types"
	"os"
	"os/exec"
	"path/filepath"
	"strconv"
	"strings"
	"time"

	"golang.org/x/tools/go/ssa"
)

func contextBackground() context.Context { return context.Background() }

type ReplayResult struct {
	Attempted bool              `json:"attempted"`
	Confirmed bool              `json:"confirmed"`
	Reason    string            `json:"reason"`
	Inputs    map[string]string `json:"inputs,omitempty"`
	Observed  []string          `json:"observed,omitempty"`
	Violated  []string          `json:"violated_clauses,omitempty"`
	TestFile  string            `json:"test_source,omitempty"`
	Cmd       string            `json:"cmd,omitempty"`
}

type concreteArg struct {
	name  string
	kind  string // int, bool, bytes, string, recv
	ival  int64
	bval  bool
	bytes []byte
	cap   int64
	goTy  string
	isNil bool
}

// replay runs the real function on the model's inputs and evaluates the contract on what it did.
func (w *World) replay(v *Verdict, repo, dir string) ReplayResult {
	rr := ReplayResult{}
	fr := v.Fn
	fn := fr.Fn
	if fn == nil || fn.Pkg == nil || fr.Con == nil {
		rr.Reason = "no function to replay"
		return rr
	}
	if fn.Parent() != nil {
		rr.Reason = "closures cannot be called from a test"
		return rr
	}
	// concrete arguments
	var args []concreteArg
	desc := map[string]modelVar{}
	for _, mv := range fr.Enc.modelDesc {
		desc[mv.Name] = mv
	}
	qual := func(p *types.Package) string {
		if p == fn.Pkg.Pkg {
			return ""
		}
		return p.Name()
	}
	for i, p := range fn.Params {
		mv, ok := desc[p.Name()]
		ca := concreteArg{name: p.Name(), goTy: types.TypeString(p.Type(), qual)}
		if i == 0 && fn.Signature.Recv() != nil {
			if pt, ok := p.Type().Underlying().(*types.Pointer); ok {
				if _, isSt := pt.Elem().Underlying().(*types.Struct); isSt {
					ca.kind = "recv"
					ca.goTy = types.TypeString(pt.Elem(), qual)
					args = append(args, ca)
					continue
				}
			}
		}
		if !ok {
			rr.Reason = "parameter " + p.Name() + " has no model description"
			return rr
		}
		switch mv.Kind {
		case "int":
			n, ok := smtIntValue(v.Model[mv.Terms[0]])
			if !ok {
				rr.Reason = "model value of " + p.Name() + " is not a literal"
				return rr
			}
			ca.kind, ca.ival = "int", n
		case "bool":
			ca.kind, ca.bval = "bool", strings.TrimSpace(v.Model[mv.Terms[0]]) == "true"
		case "bytes", "string":
			ln, _ := smtIntValue(v.Model[mv.Terms[0]])
			cp, _ := smtIntValue(v.Model[mv.Terms[1]])
			arr, _ := smtIntValue(v.Model[mv.Terms[2]])
			if ln > 48 {
				rr.Reason = fmt.Sprintf("model needs %d bytes for %s; only 48 are extracted", ln, p.Name())
				return rr
			}
			for k := int64(0); k < ln; k++ {
				b, _ := smtIntValue(v.Model[mv.Terms[4+k]])
				ca.bytes = append(ca.bytes, byte(b))
			}
			if cp > ln+64 {
				cp = ln + 64
			}
			ca.cap = cp
			ca.kind = mv.Kind
			ca.isNil = arr == 0 && ln == 0
		default:
			rr.Reason = "parameter " + p.Name() + " of type " + mv.Ty + " cannot be built from a model"
			return rr
		}
		args = append(args, ca)
	}
	return w.runReplay(fr, args)
}

// witnessArgs builds arguments from a `witness` line of the contract.
func (w *World) witnessArgs(fr *FuncResult, wm map[string]string) ([]concreteArg, bool) {
	fn := fr.Fn
	qual := func(p *types.Package) string {
		if p == fn.Pkg.Pkg {
			return ""
		}
		return p.Name()
	}
	var args []concreteArg
	for i, p := range fn.Params {
		ca := concreteArg{name: p.Name(), goTy: types.TypeString(p.Type(), qual)}
		if i == 0 && fn.Signature.Recv() != nil {
			if pt, ok := p.Type().Underlying().(*types.Pointer); ok {
				if _, isSt := pt.Elem().Underlying().(*types.Struct); isSt {
					ca.kind = "recv"
					ca.goTy = types.TypeString(pt.Elem(), qual)
					args = append(args, ca)
					continue
				}
			}
		}
		lit := wm[p.Name()]
		switch kindOfType(p.Type()) {
		case KInt:
			ca.kind = "int"
			if lit != "" {
				fmt.Sscan(lit, &ca.ival)
			}
		case KBool:
			ca.kind = "bool"
			ca.bval = lit == "true"
		case KSlc:
			ca.kind = "bytes"
			if _, ok := p.Type().Underlying().(*types.Basic); ok {
				ca.kind = "string"
			}
			if lit == "" || lit == "nil" {
				ca.isNil = ca.kind == "bytes"
			} else {
				u, err := strconv.Unquote(lit)
				if err != nil {
					return nil, false
				}
				ca.bytes = []byte(u)
				ca.cap = int64(len(u))
			}
		default:
			return nil, false
		}
		args = append(args, ca)
	}
	return args, true
}

func (w *World) runReplay(fr *FuncResult, args []concreteArg) ReplayResult {
	rr := ReplayResult{}
	fn := fr.Fn
	rr.Attempted = true
	rr.Inputs = map[string]string{}
	for _, a := range args {
		switch a.kind {
		case "int":
			rr.Inputs[a.name] = fmt.Sprint(a.ival)
		case "bool":
			rr.Inputs[a.name] = fmt.Sprint(a.bval)
		case "bytes", "string":
			rr.Inputs[a.name] = fmt.Sprintf("%q", a.bytes)
		case "recv":
			rr.Inputs[a.name] = "new(" + a.goTy + ")"
		}
	}
	src := w.replaySource(fn, args)
	rr.TestFile = src
	pkgDir := filepath.Dir(w.fset.Position(fn.Pos()).Filename)
	tmp, err := os.MkdirTemp("", "vcgoreplay")
	if err != nil {
		rr.Reason = err.Error()
		return rr
	}
	defer os.RemoveAll(tmp)
	testPath := filepath.Join(pkgDir, "zz_vcgo_replay_test.go")
	srcPath := filepath.Join(tmp, "replay_test.go")
	os.WriteFile(srcPath, []byte(src), 0o644)
	ov, _ := json.Marshal(map[string]interface{}{"Replace": map[string]string{testPath: srcPath}})
	ovPath := filepath.Join(tmp, "ov.json")
	os.WriteFile(ovPath, ov, 0o644)
	ctx, cancel := context.WithTimeout(context.Background(), 180*time.Second)
	defer cancel()
	cmd := exec.CommandContext(ctx, "go", "test", "-tags", "verif", "-overlay", ovPath, "-v", "-vet=off", "-timeout", "60s", "-count=1", "-run", "^TestVcgoReplay$", ".")
	cmd.Dir = pkgDir
	cmd.Env = append(os.Environ(), "GOFLAGS=-mod=mod", "GOPROXY=off", "GOSUMDB=off", "GOTOOLCHAIN=local", "GOCACHE="+filepath.Join(tmp, "gocache-unused"))
	// reuse the default build cache for speed
	cmd.Env = append(os.Environ(), "GOFLAGS=-mod=mod", "GOPROXY=off", "GOSUMDB=off", "GOTOOLCHAIN=local")
	rr.Cmd = "cd " + pkgDir + " && go test -tags verif -overlay <ov.json> -vet=off -timeout 60s -count=1 -run '^TestVcgoReplay$' ."
	outB, _ := cmd.CombinedOutput()
	out := string(outB)
	var obs []string
	panicked := false
	for _, l := range strings.Split(out, "\n") {
		if strings.HasPrefix(l, "VCGO-") {
			obs = append(obs, l)
			if strings.HasPrefix(l, "VCGO-PANIC") {
				panicked = true
			}
		}
	}
	rr.Observed = obs
	if len(obs) == 0 {
		rr.Reason = "replay produced no observation: " + firstLines(out, 8)
		return rr
	}
	if panicked {
		if fr.Con.PanicsAllowed {
			rr.Reason = "the real function panics on the model input, which its contract allows"
			return rr
		}
		// the input must satisfy the precondition
		if ok, why := w.concreteCheck(fr, args, obs, true); !ok {
			rr.Reason = "the real function panics, but the model input does not satisfy the precondition: " + why
			return rr
		}
		// a nil dereference on a synthesised zero-value receiver/argument says nothing: new(T) is not an object
		// the program ever builds (its constructor fills the fields the method goes through)
		zeroObj := false
		for _, v := range rr.Inputs {
			if strings.HasPrefix(v, "new(") {
				zeroObj = true
			}
		}
		if zeroObj && strings.Contains(strings.Join(obs, " "), "nil pointer dereference") {
			rr.Reason = "the replay panics with a nil dereference on a zero-value object it had to synthesise: not a reproduction"
			return rr
		}
		rr.Confirmed = true
		rr.Reason = "the real function panics on the model input"
		return rr
	}
	ok, why := w.concreteCheck(fr, args, obs, false)
	if !ok {
		rr.Reason = why
		return rr
	}
	rr.Violated = strings.Split(why, "; ")
	rr.Confirmed = true
	rr.Reason = "the real function's observed behaviour on the model input violates: " + why
	return rr
}

func goBytesLit(b []byte) string {
	var sb strings.Builder
	sb.WriteString("[]byte{")
	for i, c := range b {
		if i > 0 {
			sb.WriteString(", ")
		}
		fmt.Fprintf(&sb, "%d", c)
	}
	sb.WriteString("}")
	return sb.String()
}

// replaySource: an in-package test that calls the real function and prints what it did.
func (w *World) replaySource(fn *ssa.Function, args []concreteArg) string {
	var b strings.Builder
	pkg := fn.Pkg.Pkg
	fmt.Fprintf(&b, "package %s\n\nimport (\n\t\"fmt\"\n\t\"testing\"\n)\n\n", pkg.Name())
	b.WriteString("func vcgoEnc(x interface{}) string {\n\tswitch v := x.(type) {\n\tcase []byte:\n\t\tif v == nil {\n\t\t\treturn \"bytes nil\"\n\t\t}\n\t\treturn fmt.Sprintf(\"bytes %d %d %x\", len(v), cap(v), v)\n\tcase string:\n\t\treturn fmt.Sprintf(\"string %d %x\", len(v), v)\n\tcase error:\n\t\tif v == nil {\n\t\t\treturn \"error nil\"\n\t\t}\n\t\treturn fmt.Sprintf(\"error %q\", v.Error())\n\tcase nil:\n\t\treturn \"nil\"\n\tcase bool:\n\t\treturn fmt.Sprintf(\"bool %t\", v)\n\tcase int, int8, int16, int32, int64, uint, uint8, uint16, uint32, uint64:\n\t\treturn fmt.Sprintf(\"int %d\", v)\n\t}\n\treturn \"other\"\n}\n\n")
	b.WriteString("func TestVcgoReplay(t *testing.T) {\n")
	var call []string
	recv := ""
	for i, a := range args {
		vn := fmt.Sprintf("a%d", i)
		switch a.kind {
		case "int":
			fmt.Fprintf(&b, "\tvar %s %s = %d\n", vn, a.goTy, a.ival)
		case "bool":
			fmt.Fprintf(&b, "\tvar %s %s = %t\n", vn, a.goTy, a.bval)
		case "bytes":
			if a.isNil {
				fmt.Fprintf(&b, "\tvar %s %s\n", vn, a.goTy)
			} else {
				fmt.Fprintf(&b, "\t%s := make([]byte, %d, %d)\n\tcopy(%s, %s)\n", vn, len(a.bytes), a.cap, vn, goBytesLit(a.bytes))
			}
		case "string":
			fmt.Fprintf(&b, "\tvar %s %s = %s(%s)\n", vn, a.goTy, a.goTy, goBytesLit(a.bytes))
		case "recv":
			fmt.Fprintf(&b, "\t%s := new(%s)\n", vn, a.goTy)
			recv = vn
			continue
		}
		call = append(call, vn)
	}
	b.WriteString("\tdefer func() {\n\t\tif r := recover(); r != nil {\n\t\t\tfmt.Printf(\"VCGO-PANIC %v\\n\", r)\n\t\t}\n\t}()\n")
	nres := fn.Signature.Results().Len()
	var lhs []string
	for i := 0; i < nres; i++ {
		lhs = append(lhs, fmt.Sprintf("r%d", i))
	}
	callee := fn.Name()
	if recv != "" {
		callee = recv + "." + fn.Name()
	}
	if nres > 0 {
		fmt.Fprintf(&b, "\t%s := %s(%s)\n", strings.Join(lhs, ", "), callee, strings.Join(call, ", "))
	} else {
		fmt.Fprintf(&b, "\t%s(%s)\n", callee, strings.Join(call, ", "))
	}
	for i := 0; i < nres; i++ {
		fmt.Fprintf(&b, "\tfmt.Printf(\"VCGO-RESULT %d %%s\\n\", vcgoEnc(r%d))\n", i, i)
	}
	for i, a := range args {
		if a.kind == "bytes" {
			fmt.Fprintf(&b, "\tfmt.Printf(\"VCGO-POST %d %%s\\n\", vcgoEnc(a%d[:cap(a%d)]))\n", i, i, i)
		}
	}
	// aliasing of byte results with byte arguments
	for i := 0; i < nres; i++ {
		rt := fn.Signature.Results().At(i).Type()
		if sl, ok := rt.Underlying().(*types.Slice); ok {
			if bt, ok := sl.Elem().Underlying().(*types.Basic); ok && bt.Kind() == types.Uint8 {
				for j, a := range args {
					if a.kind == "bytes" {
						fmt.Fprintf(&b, "\tif cap(r%d) > 0 && cap(a%d) > 0 && &r%d[:1][0] == &a%d[:1][0] {\n\t\tfmt.Printf(\"VCGO-ALIAS %d %d\\n\")\n\t}\n", i, j, i, j, i, j)
					}
				}
			}
		}
	}
	b.WriteString("}\n")
	return b.String()
}

// concreteCheck evaluates the contract on a concrete run. With preOnly it checks that the inputs
// satisfy `requires` (true = they do). Otherwise it returns true and the list of violated
// `ensures` clauses when at least one clause is refuted by the observed behaviour.
func (w *World) concreteCheck(fr *FuncResult, args []concreteArg, obs []string, preOnly bool) (bool, string) {
	fn := fr.Fn
	con := fr.Con
	var verdict bool
	var why string
	func() {
		defer func() {
			if r := recover(); r != nil {
				if u, ok := r.(unsupported); ok {
					verdict, why = false, "concrete evaluation unsupported: "+u.msg
					return
				}
				panic(r)
			}
		}()
		e := newEnc(w, fn, "replay")
		e.abstract = true
		in := e.newInst(fn, nil)
		in.con = con
		ep := &Epoch{id: e.newEpoch(), kind: epEntry, memo: map[string]string{}, enc: e}
		st0 := &State{ep: ep, ov: map[string]string{}, reach: "true"}
		e.axiom(sApp("<", "1000", st0.get("alloc")))
		mem0 := st0.get("Mem")
		refOf := func(i int) string { return fmt.Sprint(100 + i) }
		for i, a := range args {
			p := fn.Params[i]
			var v Val
			switch a.kind {
			case "int":
				v = Val{K: KInt, T: sInt(a.ival), Ty: p.Type()}
			case "bool":
				v = Val{K: KBool, T: fmt.Sprint(a.bval), Ty: p.Type()}
			case "bytes", "string":
				if a.isNil {
					v = Val{K: KSlc, T: nilSlc, Ty: p.Type()}
				} else {
					cp := a.cap
					if a.kind == "string" {
						cp = int64(len(a.bytes))
					}
					v = Val{K: KSlc, T: mkSlc(refOf(i), "0", fmt.Sprint(len(a.bytes)), fmt.Sprint(cp)), Ty: p.Type()}
					e.axiom(sEq(sSel(mem0, refOf(i)), constArrayTerm(string(a.bytes))))
				}
			case "recv":
				v = Val{K: KRef, T: refOf(i), Ty: p.Type()}
				T := p.Type().Underlying().(*types.Pointer).Elem()
				e.zeroInit(st0, refOf(i), T)
			}
			in.vals[p] = v
		}
		in.entry = st0.clone()
		env := in.entryEnv(st0)
		if preOnly {
			var cs []string
			for _, r := range con.Requires {
				cs = append(cs, in.specBool(r.Expr, env))
			}
			o := &Obligation{Name: "replay-pre", Step: len(e.steps), Reach: sAnd(cs...), Goal: "true", Smoke: true}
			st, _, _, _, _ := solve(context.Background(), e.script(o, false), 10, false, nil)
			verdict = st != "unsat"
			if !verdict {
				why = "requires clause refuted for these inputs"
			}
			return
		}
		// post state: everything unknown except what was observed
		st1 := st0.clone()
		in.havocAll(st1)
		mem1 := st1.get("Mem")
		results := map[int]Val{}
		alias := map[int]int{}
		for _, l := range obs {
			fs := strings.Fields(l)
			if fs[0] == "VCGO-ALIAS" && len(fs) == 3 {
				var ri, ai int
				fmt.Sscan(fs[1], &ri)
				fmt.Sscan(fs[2], &ai)
				alias[ri] = ai
			}
		}
		nextRef := 500
		for _, l := range obs {
			fs := strings.Fields(l)
			switch fs[0] {
			case "VCGO-POST":
				var ai int
				fmt.Sscan(fs[1], &ai)
				if len(fs) >= 6 && fs[2] == "bytes" {
					data, _ := hex.DecodeString(fs[5])
					e.axiom(sEq(sSel(mem1, refOf(ai)), constArrayTerm(string(data))))
				}
			case "VCGO-RESULT":
				var ri int
				fmt.Sscan(fs[1], &ri)
				rt := fn.Signature.Results().At(ri).Type()
				switch fs[2] {
				case "nil":
					results[ri] = e.zeroVal(rt)
				case "int":
					var n int64
					fmt.Sscan(fs[3], &n)
					results[ri] = Val{K: KInt, T: sInt(n), Ty: rt}
				case "bool":
					results[ri] = Val{K: KBool, T: fs[3], Ty: rt}
				case "error":
					if fs[3] == "nil" {
						results[ri] = Val{K: KRef, T: "0", Ty: rt}
					} else {
						results[ri] = Val{K: KRef, T: "999", Ty: rt}
					}
				case "bytes":
					if fs[3] == "nil" {
						results[ri] = Val{K: KSlc, T: nilSlc, Ty: rt}
						break
					}
					var ln, cp int64
					fmt.Sscan(fs[3], &ln)
					fmt.Sscan(fs[4], &cp)
					data := []byte{}
					if len(fs) >= 6 {
						data, _ = hex.DecodeString(fs[5])
					}
					if ai, ok := alias[ri]; ok {
						results[ri] = Val{K: KSlc, T: mkSlc(refOf(ai), "0", fmt.Sprint(ln), fmt.Sprint(cp)), Ty: rt}
					} else {
						nextRef++
						r := fmt.Sprint(nextRef + 1000)
						results[ri] = Val{K: KSlc, T: mkSlc(r, "0", fmt.Sprint(ln), fmt.Sprint(cp)), Ty: rt}
						e.axiom(sEq(sSel(mem1, r), constArrayTerm(string(data))))
						e.axiom(sApp(">=", r, st0.get("alloc")))
					}
				case "string":
					var ln int64
					fmt.Sscan(fs[3], &ln)
					data := []byte{}
					if len(fs) >= 5 {
						data, _ = hex.DecodeString(fs[4])
					}
					nextRef++
					r := fmt.Sprint(nextRef + 1000)
					results[ri] = Val{K: KSlc, T: mkSlc(r, "0", fmt.Sprint(ln), fmt.Sprint(ln)), Ty: rt}
					e.axiom(sEq(sSel(mem1, r), constArrayTerm(string(data))))
				}
			}
		}
		renv := in.entryEnv(st1)
		renv.old = st0
		for i, name := range con.Results {
			if v, ok := results[i]; ok {
				renv.vars[name] = v
			}
		}
		var violated []string
		for _, en := range con.Ensures {
			var t string
			ok := func() (ok bool) {
				defer func() {
					if r := recover(); r != nil {
						if _, isU := r.(unsupported); isU {
							ok = false
							return
						}
						panic(r)
					}
				}()
				t = in.specBool(en.Expr, renv)
				return true
			}()
			if !ok {
				continue
			}
			o := &Obligation{Name: "replay-post", Step: len(e.steps), Reach: t, Goal: "true", Smoke: true}
			st, _, _, _, _ := solve(context.Background(), e.script(o, false), 3, false, nil)
			if st == "unsat" {
				violated = append(violated, "ensures "+en.Src)
			}
		}
		if len(violated) > 0 {
			verdict, why = true, strings.Join(violated, "; ")
		} else {
			verdict, why = false, "the real function's observed behaviour on the model input satisfies every ensures clause (the failed obligation concerns an intermediate state)"
		}
	}()
	return verdict, why
}

func (w *World) verifyLemmas(prop string) []*FuncResult { return nil }

// replayGo runs a hand-written reproduction from the contract file (clause replay-go) inside the
// package of the function. The body prints a line starting with VCGO-VIOLATED (or panics) when the
// defect shows on the real code.
func (w *World) replayGo(fr *FuncResult, body string) ReplayResult {
	rr := ReplayResult{Attempted: true}
	fn := fr.Fn
	if fn == nil || fn.Pkg == nil {
		rr.Reason = "no function"
		return rr
	}
	var b strings.Builder
	extra := ""
	if fr.Con != nil {
		for _, imp := range fr.Con.ReplayImports {
			extra += "\t\"" + imp + "\"\n"
		}
	}
	fmt.Fprintf(&b, "package %s\n\nimport (\n\t\"bytes\"\n\t\"fmt\"\n\t\"strings\"\n\t\"testing\"\n%s)\n\nvar _ = bytes.Contains\nvar _ = strings.Contains\n\n", fn.Pkg.Pkg.Name(), extra)
	if fr.Con != nil {
		for _, d := range fr.Con.ReplayDecls {
			b.WriteString(d + "\n\n")
		}
	}
	b.WriteString("func TestVcgoReplay(t *testing.T) {\n\tdefer func() {\n\t\tif r := recover(); r != nil {\n\t\t\tfmt.Printf(\"VCGO-PANIC %v\\n\", r)\n\t\t}\n\t}()\n")
	b.WriteString("\t" + body + "\n}\n")
	src := b.String()
	rr.TestFile = src
	pkgDir := filepath.Dir(w.fset.Position(fn.Pos()).Filename)
	tmp, err := os.MkdirTemp("", "vcgoreplay")
	if err != nil {
		rr.Reason = err.Error()
		return rr
	}
	defer os.RemoveAll(tmp)
	testPath := filepath.Join(pkgDir, "zz_vcgo_replay_test.go")
	srcPath := filepath.Join(tmp, "replay_test.go")
	os.WriteFile(srcPath, []byte(src), 0o644)
	ov, _ := json.Marshal(map[string]interface{}{"Replace": map[string]string{testPath: srcPath}})
	ovPath := filepath.Join(tmp, "ov.json")
	os.WriteFile(ovPath, ov, 0o644)
	ctx, cancel := context.WithTimeout(context.Background(), 180*time.Second)
	defer cancel()
	cmd := exec.CommandContext(ctx, "go", "test", "-tags", "verif", "-overlay", ovPath, "-v", "-vet=off", "-timeout", "60s", "-count=1", "-run", "^TestVcgoReplay$", ".")
	cmd.Dir = pkgDir
	cmd.Env = append(os.Environ(), "GOFLAGS=-mod=mod", "GOPROXY=off", "GOSUMDB=off", "GOTOOLCHAIN=local")
	rr.Cmd = "cd " + pkgDir + " && go test -tags verif -overlay <ov.json> -v -vet=off -timeout 60s -count=1 -run '^TestVcgoReplay$' ."
	outB, _ := cmd.CombinedOutput()
	for _, l := range strings.Split(string(outB), "\n") {
		if strings.HasPrefix(l, "VCGO-") {
			rr.Observed = append(rr.Observed, l)
			if strings.HasPrefix(l, "VCGO-VIOLATED") || strings.HasPrefix(l, "VCGO-PANIC") {
				rr.Confirmed = true
			}
		}
	}
	if rr.Confirmed {
		rr.Reason = "hand-written reproduction from the contract file shows the defect on the real code"
	} else {
		rr.Reason = "reproduction did not show the defect: " + firstLines(string(outB), 6)
	}
	return rr
}
