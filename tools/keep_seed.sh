#!/bin/sh
# usage: keep_seed.sh <Cxx> <name> <srcdir> <demo-relative-path>
# Confirms a seeded change in a scratch worktree of /repo: compiles, pinned tests pass, demo fails with the
# change and passes without it. On success stores it under /verif/seeded/<name>/.
# A suite run that ends non-zero WITHOUT any "--- FAIL" line (a package hit the 10-minute go test timeout: the pinned
# suite has timing-dependent tests - TestHertz_Spin, TestMaxConn - that hang or time out on a loaded machine) gets its
# failed packages re-run once on their own; both logs are kept.
id=$1; name=$2; src=$3; demo=$4
export GOFLAGS=-mod=mod GOPROXY=off GOSUMDB=off GOTOOLCHAIN=local
wt=/tmp/keepseed.$$
git -C /repo worktree add -q --detach $wt HEAD || exit 2
cd $wt
out=/verif/seeded/$name; mkdir -p $out
res() { echo "$1" | tee -a $out/confirm.log; }
: > $out/confirm.log
git apply $src/patch.diff || { res "patch does not apply"; git -C /repo worktree remove --force $wt; exit 2; }
go build ./... > $out/build.log 2>&1 && res "build: ok" || res "build: FAILED"
if go test -vet=off -count=1 ./... > $out/tests_with_patch.log 2>&1; then res "existing tests with patch: pass"
else
  nfail=$(grep -c '^--- FAIL' $out/tests_with_patch.log)
  pkgs=$(grep '^FAIL	' $out/tests_with_patch.log | awk '{print $2}' | sort -u | tr '\n' ' ')
  if [ "$nfail" = 0 ] && [ -n "$pkgs" ] && go test -vet=off -count=1 $pkgs > $out/tests_with_patch_rerun.log 2>&1; then
    res "existing tests with patch: pass (first run: package(s) $pkgs hit the go test timeout under load without any test failing; re-run on their own: ok)"
  else
    res "existing tests with patch: FAIL ($nfail failing)"
  fi
fi
cp $src/$(basename $demo) $wt/$demo
pkg=./$(dirname $demo)
go test -vet=off -count=1 -timeout 5m -run 'Seed|seed|Demo' $pkg > $out/demo_with_patch.log 2>&1 && res "demo with patch: PASSES (unexpected)" || res "demo with patch: fails (expected)"
git apply -R $src/patch.diff
go test -vet=off -count=1 -timeout 5m -run 'Seed|seed|Demo' $pkg > $out/demo_without_patch.log 2>&1 && res "demo without patch: passes (expected)" || res "demo without patch: FAILS (unexpected)"
cp $src/patch.diff $out/patch.diff; cp $src/$(basename $demo) $out/; [ -f $src/notes.md ] && cp $src/notes.md $out/agent_notes.md
cd /; git -C /repo worktree remove --force $wt; rm -rf $wt
