package main

import (
	"fmt"
	"go/ast"
	"go/token"
	"go/types"
	"sort"
	"strings"

	"golang.org/x/tools/go/ssa"
)

type Loop struct {
	header   *ssa.BasicBlock
	blocks   map[*ssa.BasicBlock]bool
	ordinal  int
	spec     *LoopSpec
	pre      *State
	head     *State
	mod      *modSet
	phiEntry map[*ssa.Phi]Val
	phiHead  map[*ssa.Phi]Val
	allocPre string
	variant  string
	tracked  []*ssa.Phi // slice phis whose array is entry-or-fresh
	autoInvs []autoInv
}

type autoInv struct {
	key  string
	eval func(phiVal func(*ssa.Phi) Val, st *State) string
}

// findLoops computes natural loops and maps them to AST loop ordinals.
func (in *Inst) findLoops() {
	fn := in.fn
	in.loopOf = map[*ssa.BasicBlock]*Loop{}
	reach := map[*ssa.BasicBlock]bool{}
	var dfs func(b *ssa.BasicBlock)
	dfs = func(b *ssa.BasicBlock) {
		reach[b] = true
		for _, s := range b.Succs {
			if !reach[s] {
				dfs(s)
			}
		}
	}
	dfs(fn.Blocks[0])
	for _, b := range fn.Blocks {
		if !reach[b] {
			continue
		}
		for _, s := range b.Succs {
			if s.Dominates(b) { // back edge b -> s
				lp := in.loopOf[s]
				if lp == nil {
					lp = &Loop{header: s, blocks: map[*ssa.BasicBlock]bool{s: true}, ordinal: -1}
					in.loopOf[s] = lp
					in.loops = append(in.loops, lp)
				}
				// natural loop: all blocks that reach b without passing through s
				var stack []*ssa.BasicBlock
				if !lp.blocks[b] {
					lp.blocks[b] = true
					stack = append(stack, b)
				}
				for len(stack) > 0 {
					x := stack[len(stack)-1]
					stack = stack[:len(stack)-1]
					for _, p := range x.Preds {
						if reach[p] && !lp.blocks[p] {
							lp.blocks[p] = true
							stack = append(stack, p)
						}
					}
				}
			}
		}
	}
	// irreducibility check: every edge into a loop from outside must target the header
	for _, lp := range in.loops {
		for b := range lp.blocks {
			if b == lp.header {
				continue
			}
			for _, p := range b.Preds {
				if reach[p] && !lp.blocks[p] {
					in.e.fail("irreducible loop in %s", fn.Name())
				}
			}
		}
	}
	if len(in.loops) == 0 {
		return
	}
	// AST loops in source order
	var astLoops []ast.Node
	if syn := fn.Syntax(); syn != nil {
		var body ast.Node
		switch s := syn.(type) {
		case *ast.FuncDecl:
			body = s.Body
		case *ast.FuncLit:
			body = s.Body
		}
		if body != nil {
			ast.Inspect(body, func(n ast.Node) bool {
				switch n.(type) {
				case *ast.FuncLit:
					return false
				case *ast.ForStmt, *ast.RangeStmt:
					astLoops = append(astLoops, n)
				}
				return true
			})
		}
	}
	used := map[int]bool{}
	for _, lp := range in.loops {
		var lo, hi token.Pos
		first := true
		for b := range lp.blocks {
			for _, ins := range b.Instrs {
				switch ins.(type) {
				case *ssa.Phi, *ssa.DebugRef:
					continue
				}
				p := ins.Pos()
				if !p.IsValid() {
					continue
				}
				if first || p < lo {
					lo = p
				}
				if first || p > hi {
					hi = p
				}
				first = false
			}
		}
		best := -1
		for i, n := range astLoops {
			if n.Pos() <= lo && hi <= n.End() {
				if best < 0 || (astLoops[best].Pos() <= n.Pos() && n.End() <= astLoops[best].End()) {
					best = i
				}
			}
		}
		if best >= 0 && !used[best] {
			used[best] = true
			lp.ordinal = best
		}
	}
	sort.Slice(in.loops, func(i, j int) bool { return in.loops[i].header.Index < in.loops[j].header.Index })
	if in.con != nil {
		for _, lp := range in.loops {
			if lp.ordinal >= 0 {
				lp.spec = in.con.Loops[lp.ordinal]
			}
		}
	}
}

func (in *Inst) definedOutside(lp *Loop, v ssa.Value) bool {
	switch x := v.(type) {
	case *ssa.Const, *ssa.Global, *ssa.Function, *ssa.Parameter, *ssa.FreeVar, *ssa.Builtin:
		return true
	case ssa.Instruction:
		return !lp.blocks[x.Block()]
	}
	return false
}

// enterLoop builds the state at the head of a loop (arbitrary iteration).
func (in *Inst) enterLoop(lp *Loop) *State {
	e := in.e
	var entries []edge
	for _, ed := range predEdges(lp.header) {
		if !lp.blocks[ed.from] {
			entries = append(entries, ed)
		}
	}
	pre := in.mergeInto(lp.header, entries, false)
	if pre == nil {
		return nil
	}
	lp.pre = pre
	lp.allocPre = pre.get("alloc")
	// entry values of the header phis
	lp.phiEntry = map[*ssa.Phi]Val{}
	lp.phiHead = map[*ssa.Phi]Val{}
	var phis []*ssa.Phi
	for _, ins := range lp.header.Instrs {
		phi, ok := ins.(*ssa.Phi)
		if !ok {
			break
		}
		phis = append(phis, phi)
		var vs []Val
		var gs []string
		for _, ed := range entries {
			ps := in.out[ed.from]
			if ps == nil {
				continue
			}
			g := sAnd(ps.reach, in.edgeCond(ed.from, ed.k, ps))
			if g == "false" {
				continue
			}
			vs = append(vs, in.val(phi.Edges[ed.pidx], ps))
			gs = append(gs, g)
		}
		lp.phiEntry[phi] = e.mergeVals(in.name(phi)+".entry", phi.Type(), vs, gs)
	}
	// what the loop modifies
	lp.mod = in.scanLoop(lp)
	if lp.spec != nil && lp.spec.ModifiesAll {
		lp.mod.all = true
	}
	in.inferAuto(lp, phis)

	// inv-init
	envInit := in.loopEnv(lp, pre, func(p *ssa.Phi) Val { return lp.phiEntry[p] })
	in.checkInvs(lp, "inv-init", pre.reach, envInit, pre, func(p *ssa.Phi) Val { return lp.phiEntry[p] })

	// head state
	ep := &Epoch{id: e.newEpoch(), kind: epLoop, from: pre, mod: lp.mod, memo: map[string]string{}, enc: e, allocPre: lp.allocPre}
	head := &State{ep: ep, ov: map[string]string{}, reach: pre.reach}
	lp.head = head
	for _, phi := range phis {
		hv := e.freshVal(in.name(phi), phi.Type(), head)
		if ev := lp.phiEntry[phi]; ev.K == KPtrField && hv.K == KPtrField {
			hv.F = ev.F
		}
		lp.phiHead[phi] = hv
		in.vals[phi] = hv
	}
	// assume the invariants
	envHead := in.loopEnv(lp, head, func(p *ssa.Phi) Val { return lp.phiHead[p] })
	if lp.spec != nil {
		for _, iv := range lp.spec.Invariants {
			if e.W.otherProp(iv.Prop) {
				continue // clause of another property: neither proved nor assumed in this run
			}
			t := in.specBool(iv.Expr, envHead)
			e.assume(head.reach, t)
		}
		if lp.spec.Decreases != nil {
			v := in.specVal(lp.spec.Decreases, envHead)
			lp.variant = e.define(in.prefix+"!variant", "Int", v.T)
		}
	}
	for _, ai := range lp.autoInvs {
		e.assume(head.reach, ai.eval(func(p *ssa.Phi) Val { return lp.phiHead[p] }, head))
	}
	return head.clone()
}

func (in *Inst) checkInvs(lp *Loop, kind, guard string, env *SpecEnv, st *State, phiVal func(*ssa.Phi) Val) {
	e := in.e
	lk := fmt.Sprintf("L%d", lp.ordinal)
	if lp.spec != nil {
		for i, iv := range lp.spec.Invariants {
			if e.W.otherProp(iv.Prop) {
				continue
			}
			t := in.specBool(iv.Expr, env)
			o := e.oblige(kind, fmt.Sprintf("%s#%d", lk, i), lp.header.Instrs[0].Pos(), guard, t)
			o.Top = iv.Top
			o.Prop = iv.Prop
		}
	}
	for _, ai := range lp.autoInvs {
		e.oblige(kind, lk+"#auto:"+ai.key, lp.header.Instrs[0].Pos(), guard, ai.eval(phiVal, st))
	}
}

// backEdge: invariant preservation along b -> header (successor index k).
func (in *Inst) backEdge(lp *Loop, b *ssa.BasicBlock, k int, st *State) {
	e := in.e
	if lp.head == nil {
		return
	}
	guard := sAnd(st.reach, in.edgeCond(b, k, st))
	if guard == "false" {
		return
	}
	// predecessor index of this edge
	pidx := -1
	n := 0
	for i := 0; i < k; i++ {
		if b.Succs[i] == lp.header {
			n++
		}
	}
	for i, p := range lp.header.Preds {
		if p == b {
			if n == 0 {
				pidx = i
				break
			}
			n--
		}
	}
	phiVal := func(p *ssa.Phi) Val { return in.val(p.Edges[pidx], st) }
	env := in.loopEnv(lp, st, phiVal)
	in.checkInvs(lp, "inv-pres", guard, env, st, phiVal)
	if lp.spec != nil && lp.spec.Decreases != nil {
		v := in.specVal(lp.spec.Decreases, env)
		e.oblige("decreases", fmt.Sprintf("L%d", lp.ordinal), lp.header.Instrs[0].Pos(), guard,
			sAnd(sApp("<=", "0", lp.variant), sApp("<", v.T, lp.variant)))
	}
}

// loopEnv: names in a loop invariant denote values at the loop head.
func (in *Inst) loopEnv(lp *Loop, st *State, phiVal func(*ssa.Phi) Val) *SpecEnv {
	env := in.newEnv(st)
	env.atBlock = lp.header
	env.atIdx = 0
	for _, ins := range lp.header.Instrs {
		phi, ok := ins.(*ssa.Phi)
		if !ok {
			break
		}
		if phi.Comment != "" {
			env.vars[phi.Comment] = phiVal(phi)
			env.phiNames[phi.Comment] = true
			// atentry(x): the value the variable had when this loop was entered (merged over the entry edges) - for
			// an inner loop a value of the current iteration of the enclosing loop, the same term in every
			// obligation of the inner loop
			if v, ok := lp.phiEntry[phi]; ok {
				if v.Ty == nil {
					v.Ty = phi.Type()
				}
				env.vars["@entry."+phi.Comment] = v
			}
		}
	}
	return env
}

// ---------------------------------------------------------------------------
// Loop modification analysis (syntactic, over SSA)
// ---------------------------------------------------------------------------

func (in *Inst) scanLoop(lp *Loop) *modSet {
	m := newModSet()
	roots := map[string]bool{}
	unknownMem := false
	addRoot := func(x ssa.Value) {
		rs, ok := in.roots(lp, x, map[ssa.Value]bool{})
		if !ok {
			unknownMem = true
			return
		}
		for _, r := range rs {
			roots[r] = true
		}
	}
	var scanStoreAddr func(addr ssa.Value)
	scanStoreAddr = func(addr ssa.Value) {
		switch a := addr.(type) {
		case *ssa.FieldAddr:
			T := a.X.Type().Underlying().(*types.Pointer).Elem()
			if bv, ok := in.vals[a.X]; ok && bv.K == KLocalObj {
				in.markLocalObj(m, in.e.localFieldAddr(bv, T, a.Field), T.Underlying().(*types.Struct).Field(a.Field).Type())
				return
			}
			if _, isLocal := in.localObjRoot(a.X); isLocal {
				m.all = true // store into a local object allocated inside the loop
				return
			}
			name, ft := in.e.fieldComp(T, a.Field)
			switch ft.Underlying().(type) {
			case *types.Struct, *types.Array:
				in.markStructComps(m, ft)
				return
			}
			if in.definedOutside(lp, a.X) {
				if bv, ok := in.vals[a.X]; ok && bv.K == KRef {
					if !m.comps[name] {
						m.fieldAt[name] = append(m.fieldAt[name], bv.T)
					}
					return
				}
			}
			delete(m.fieldAt, name)
			m.comps[name] = true
		case *ssa.IndexAddr:
			var elem types.Type
			switch t := a.X.Type().Underlying().(type) {
			case *types.Slice:
				elem = t.Elem()
			case *types.Pointer:
				elem = t.Elem().Underlying().(*types.Array).Elem()
			}
			switch kindOfType(elem) {
			case KInt, KRef:
				m.mem = true
				addRoot(a.X)
			case KStruct:
				in.markStructComps(m, elem)
			default:
				m.comps[in.e.elemComp(elem)] = true
			}
		case *ssa.Alloc:
			if v, ok := in.vals[a]; ok && v.K == KPtrField {
				m.comps[v.F] = true
			} else {
				t := a.Type().Underlying().(*types.Pointer).Elem()
				if !in.escapes(a) {
					m.comps[fmt.Sprintf("L:%s!%s", in.prefix, a.Name())] = true
				} else {
					m.comps[cellComp(t)] = true
				}
			}
		case *ssa.Global:
			v := in.e.globalAddr(a)
			if v.K == KPtrField {
				m.comps[v.F] = true
			} else {
				m.all = true
			}
		case *ssa.FreeVar, *ssa.Parameter:
			if v, ok := in.vals[a]; ok && v.K == KPtrField {
				if _, isAt := m.fieldAt[v.F]; isAt {
					delete(m.fieldAt, v.F)
				}
				m.comps[v.F] = true
			} else {
				m.all = true
			}
		default:
			if pt, ok := addr.Type().Underlying().(*types.Pointer); ok && kindOfType(addr.Type()) == KPtrField {
				m.comps[cellComp(pt.Elem())] = true
				in.e.regCell(pt.Elem())
			} else {
				m.all = true
			}
		}
	}
	for _, b := range sortBlocks(lp.blocks) {
		for _, ins := range b.Instrs {
			switch x := ins.(type) {
			case *ssa.Store:
				if bv, ok := in.vals[x.Addr]; ok && bv.K == KLocalObj {
					in.markLocalObj(m, bv, x.Val.Type())
					continue
				}
				scanStoreAddr(x.Addr)
			case *ssa.Alloc, *ssa.MakeSlice, *ssa.MakeClosure, *ssa.MakeMap, *ssa.MakeChan:
				m.comps["alloc"] = true
				m.mem = true
				if a, ok := x.(*ssa.Alloc); ok {
					scanStoreAddr(a) // zero-initialisation
					t := a.Type().Underlying().(*types.Pointer).Elem()
					if _, ok := t.Underlying().(*types.Struct); ok {
						in.markStructComps(m, t)
					}
				}
			case *ssa.Convert:
				if kindOfType(x.Type()) == KSlc && kindOfType(x.X.Type()) == KSlc {
					m.comps["alloc"] = true
					m.mem = true
				}
			case *ssa.BinOp:
				if kindOfType(x.Type()) == KSlc {
					m.comps["alloc"] = true
					m.mem = true
				}
			case *ssa.Defer:
				in.e.fail("defer inside a loop in %s", in.fn.Name())
			case *ssa.Call:
				in.scanCall(lp, &x.Call, m, addRoot, &unknownMem)
			case *ssa.Go:
			}
		}
	}
	// ghost updates attached to call sites (ghostset clauses of the function under contract) that
	// can occur inside this loop
	if top := in.e.top; top != nil && top.con != nil && len(top.con.Ghosts) > 0 {
		names := map[string]bool{}
		seen := map[*ssa.Function]bool{}
		for _, b := range sortBlocks(lp.blocks) {
			collectCallNames(b.Instrs, names, seen, 0)
		}
		for _, gu := range top.con.Ghosts {
			if !names[gu.Callee] {
				continue
			}
			switch l := gu.Lhs.(type) {
			case *ast.IndexExpr:
				if id, ok := l.X.(*ast.Ident); ok {
					m.comps["g:"+id.Name] = true
				}
			case *ast.Ident:
				m.comps["g:"+l.Name] = true
			case *ast.SelectorExpr:
				for k := range in.e.W.ghosts {
					if strings.HasSuffix(k, "."+l.Sel.Name) && strings.Contains(k, ".") {
						m.comps["gf:"+k] = true
					}
				}
			}
		}
	}
	if lp.spec != nil && len(lp.spec.Modifies) > 0 {
		// user-declared loop frame replaces the inferred memory targets; checked at stores
		in.e.fail("loop modifies clauses are not supported yet")
	}
	if unknownMem {
		m.memAll = true
		m.mem = true
	}
	for r := range roots {
		m.memArrs = append(m.memArrs, r)
	}
	sort.Strings(m.memArrs)
	return m
}

func (in *Inst) markLocalObj(m *modSet, p Val, t types.Type) {
	if p.K == KPtrField {
		m.comps[p.F] = true
		return
	}
	if stt, ok := t.Underlying().(*types.Struct); ok && p.K == KLocalObj {
		for i := 0; i < stt.NumFields(); i++ {
			in.markLocalObj(m, in.e.localFieldAddr(p, t, i), stt.Field(i).Type())
		}
	}
}

// localObjRoot: is v (syntactically) an address inside a struct Alloc?
func (in *Inst) localObjRoot(v ssa.Value) (*ssa.Alloc, bool) {
	for i := 0; i < 6; i++ {
		switch x := v.(type) {
		case *ssa.Alloc:
			if _, ok := x.Type().Underlying().(*types.Pointer).Elem().Underlying().(*types.Struct); ok {
				if vv, have := in.vals[x]; have && vv.K != KLocalObj {
					return nil, false
				}
				return x, !in.escapesObj(x, x.Type().Underlying().(*types.Pointer).Elem())
			}
			return nil, false
		case *ssa.FieldAddr:
			v = x.X
		default:
			return nil, false
		}
	}
	return nil, false
}

func (in *Inst) markStructComps(m *modSet, t types.Type) {
	switch u := t.Underlying().(type) {
	case *types.Struct:
		for i := 0; i < u.NumFields(); i++ {
			name, ft := in.e.fieldComp(t, i)
			switch ft.Underlying().(type) {
			case *types.Struct, *types.Array:
				in.markStructComps(m, ft)
			default:
				delete(m.fieldAt, name)
				m.comps[name] = true
			}
		}
	case *types.Array:
		m.mem = true
		m.memAll = true
	}
}

// roots: the arrays (as terms valid before the loop) that slice value x may point into;
// fresh arrays (allocated during the loop) need no entry.
func (in *Inst) roots(lp *Loop, x ssa.Value, seen map[ssa.Value]bool) ([]string, bool) {
	if seen[x] {
		return nil, true
	}
	seen[x] = true
	if in.definedOutside(lp, x) {
		v, ok := in.vals[x]
		if !ok {
			if c, isC := x.(*ssa.Const); isC {
				v = in.e.constVal(c)
			} else {
				return nil, false
			}
		}
		switch v.K {
		case KSlc:
			return []string{slcArr(v.T)}, true
		case KRef:
			return []string{v.T}, true
		}
		return nil, false
	}
	switch y := x.(type) {
	case *ssa.Phi:
		var out []string
		if y.Block() == lp.header {
			ev := lp.phiEntry[y]
			if ev.K != KSlc {
				return nil, false
			}
			out = append(out, slcArr(ev.T))
			for i, p := range lp.header.Preds {
				if lp.blocks[p] {
					rs, ok := in.roots(lp, y.Edges[i], seen)
					if !ok {
						return nil, false
					}
					out = append(out, rs...)
				}
			}
			lp.tracked = append(lp.tracked, y)
			return out, true
		}
		for _, ed := range y.Edges {
			rs, ok := in.roots(lp, ed, seen)
			if !ok {
				return nil, false
			}
			out = append(out, rs...)
		}
		return out, true
	case *ssa.Slice:
		return in.roots(lp, y.X, seen)
	case *ssa.ChangeType:
		return in.roots(lp, y.X, seen)
	case *ssa.Alloc, *ssa.MakeSlice:
		return nil, true // fresh
	case *ssa.Convert:
		if kindOfType(y.Type()) == KSlc && kindOfType(y.X.Type()) == KSlc {
			return nil, true // fresh copy
		}
	case *ssa.Call:
		if b, ok := y.Call.Value.(*ssa.Builtin); ok && b.Name() == "append" {
			return in.roots(lp, y.Call.Args[0], seen)
		}
		if cal := y.Call.StaticCallee(); cal != nil {
			if con := in.e.W.contractFor(cal); con != nil && con.ResultAlias != "" {
				// result aliases (or is a fresh reallocation of) the named parameter
				for i, p := range cal.Params {
					if p.Name() == con.ResultAlias {
						return in.roots(lp, y.Call.Args[i], seen)
					}
				}
			}
		}
	}
	return nil, false
}

// scanCall: effect of a call inside a loop on the modification set.
func (in *Inst) scanCall(lp *Loop, c *ssa.CallCommon, m *modSet, addRoot func(ssa.Value), unknownMem *bool) {
	e := in.e
	if b, ok := c.Value.(*ssa.Builtin); ok {
		switch b.Name() {
		case "append":
			m.mem = true
			m.comps["alloc"] = true
			if sl, ok := c.Args[0].Type().Underlying().(*types.Slice); ok {
				switch kindOfType(sl.Elem()) {
				case KInt, KRef:
					addRoot(c.Args[0])
				case KStruct:
					in.markStructComps(m, sl.Elem())
				default:
					m.comps[e.elemComp(sl.Elem())] = true
				}
			}
		case "copy":
			m.mem = true
			if sl, ok := c.Args[0].Type().Underlying().(*types.Slice); ok {
				switch kindOfType(sl.Elem()) {
				case KInt, KRef:
					addRoot(c.Args[0])
				case KStruct:
					in.markStructComps(m, sl.Elem())
				default:
					m.comps[e.elemComp(sl.Elem())] = true
				}
			}
		}
		return
	}
	var con *Contract
	var callee *ssa.Function
	if c.IsInvoke() {
		con = e.W.ifaceContract(c)
	} else if callee = c.StaticCallee(); callee != nil {
		if e.W.intrinsic(callee) != "" {
			return
		}
		con = e.W.contractFor(callee)
	}
	if con != nil {
		in.scanContractMods(lp, con, c, callee, m, addRoot, unknownMem)
		return
	}
	if callee != nil && e.W.inlinable(callee, in.depth) {
		in.scanInlined(callee, m, unknownMem, 0)
		return
	}
	if ci := in.closureOf(c.Value); ci != nil {
		in.scanInlined(ci.fn, m, unknownMem, 0)
		return
	}
	// unknown call
	m.all = true
}

func (in *Inst) closureOf(v ssa.Value) *closureInfo {
	if mc, ok := v.(*ssa.MakeClosure); ok {
		if ci, ok := in.e.closures[mc]; ok {
			return ci
		}
		return &closureInfo{fn: mc.Fn.(*ssa.Function)}
	}
	return nil
}

func (in *Inst) scanInlined(fn *ssa.Function, m *modSet, unknownMem *bool, depth int) {
	e := in.e
	if depth > 4 {
		m.all = true
		return
	}
	for _, b := range fn.Blocks {
		for _, ins := range b.Instrs {
			switch x := ins.(type) {
			case *ssa.Store:
				switch a := x.Addr.(type) {
				case *ssa.FieldAddr:
					T := a.X.Type().Underlying().(*types.Pointer).Elem()
					name, ft := e.fieldComp(T, a.Field)
					switch ft.Underlying().(type) {
					case *types.Struct, *types.Array:
						in.markStructComps(m, ft)
					default:
						delete(m.fieldAt, name)
						m.comps[name] = true
					}
				case *ssa.IndexAddr:
					m.mem = true
					*unknownMem = true
				case *ssa.FreeVar:
					// captured variable of the caller: local component or cell
					m.all = true
				default:
					if pt, ok := x.Addr.Type().Underlying().(*types.Pointer); ok && kindOfType(x.Addr.Type()) == KPtrField {
						m.comps[cellComp(pt.Elem())] = true
						e.regCell(pt.Elem())
					} else {
						m.all = true
					}
				}
			case *ssa.Alloc, *ssa.MakeSlice, *ssa.MakeClosure, *ssa.MakeMap, *ssa.MakeChan:
				m.comps["alloc"] = true
				m.mem = true
			case *ssa.Call:
				c := &x.Call
				if bi, ok := c.Value.(*ssa.Builtin); ok {
					if bi.Name() == "append" || bi.Name() == "copy" {
						m.mem = true
						*unknownMem = true
						m.comps["alloc"] = true
					}
					continue
				}
				if c.IsInvoke() {
					if con := e.W.ifaceContract(c); con != nil {
						in.scanContractMods(nil, con, c, nil, m, nil, unknownMem)
						continue
					}
					m.all = true
					continue
				}
				cal := c.StaticCallee()
				if cal == nil {
					m.all = true
					continue
				}
				if e.W.intrinsic(cal) != "" {
					continue
				}
				if con := e.W.contractFor(cal); con != nil {
					in.scanContractMods(nil, con, c, cal, m, nil, unknownMem)
					continue
				}
				if e.W.inlinable(cal, depth+in.depth) {
					in.scanInlined(cal, m, unknownMem, depth+1)
					continue
				}
				m.all = true
			}
		}
	}
}

// scanContractMods translates a contract's modifies clause into modset entries.
func (in *Inst) scanContractMods(lp *Loop, con *Contract, c *ssa.CallCommon, callee *ssa.Function, m *modSet, addRoot func(ssa.Value), unknownMem *bool) {
	e := in.e
	if con.ModifiesAll {
		m.all = true
		return
	}
	if con.Allocates {
		m.comps["alloc"] = true
		m.mem = true
	}
	for _, mi := range con.Modifies {
		switch mi.Kind {
		case modType:
			for _, name := range e.W.typeComps(e, con.Pkg, mi.Name) {
				delete(m.fieldAt, name)
				m.comps[name] = true
			}
		case modMem:
			m.mem = true
			*unknownMem = true
		case modGhost:
			m.comps["g:"+mi.Name] = true
		case modBytes:
			m.mem = true
			m.comps["alloc"] = true
			// bytes(p) for a parameter p: root of the actual
			done := false
			if id, ok := mi.Expr.(*ast.Ident); ok && callee != nil && lp != nil && addRoot != nil {
				for i, p := range callee.Params {
					if p.Name() == id.Name && i < len(c.Args) {
						addRoot(c.Args[i])
						done = true
					}
				}
			}
			if !done {
				*unknownMem = true
			}
		case modField:
			baseRef := ""
			if star, ok := mi.Expr.(*ast.StarExpr); ok {
				// *p, p a pointer parameter: the cell (or every field of the struct) p points to
				if id, isId := star.X.(*ast.Ident); isId && con.Sig == nil && callee != nil {
					con.Sig = callee.Signature
					_ = id
				}
				handled := false
				if id, isId := star.X.(*ast.Ident); isId && con.Sig != nil {
					var all []*types.Var
					if con.Sig.Recv() != nil {
						all = append(all, con.Sig.Recv())
					}
					for i := 0; i < con.Sig.Params().Len(); i++ {
						all = append(all, con.Sig.Params().At(i))
					}
					var actuals []ssa.Value
					if c.IsInvoke() {
						actuals = append(actuals, c.Value)
					}
					actuals = append(actuals, c.Args...)
					for i, pn := range con.Params {
						if pn != id.Name || i >= len(all) {
							continue
						}
						pt, ok := all[i].Type().Underlying().(*types.Pointer)
						if !ok {
							break
						}
						switch pt.Elem().Underlying().(type) {
						case *types.Struct, *types.Array:
						default:
							comp := cellComp(pt.Elem())
							e.regComp(comp, "(Array Int "+sortOfType(pt.Elem())+")")
							ref := ""
							if lp != nil && i < len(actuals) && in.definedOutside(lp, actuals[i]) {
								if bv, ok := in.vals[actuals[i]]; ok && (bv.K == KRef || bv.K == KPtrField) && bv.T != "" {
									ref = bv.T
								}
							}
							if ref != "" && !m.comps[comp] {
								m.fieldAt[comp] = append(m.fieldAt[comp], ref)
							} else {
								delete(m.fieldAt, comp)
								m.comps[comp] = true
							}
							handled = true
						}
					}
				}
				if !handled {
					m.all = true
				}
				continue
			}
			if sel, ok := mi.Expr.(*ast.SelectorExpr); ok {
				ghost := false
				// x.f where x is a parameter bound to a loop-invariant actual: only that object changes
				if id, isId := sel.X.(*ast.Ident); isId && lp != nil {
					var actuals []ssa.Value
					if c.IsInvoke() {
						actuals = append(actuals, c.Value)
					}
					actuals = append(actuals, c.Args...)
					names := con.Params
					for i, pn := range names {
						if pn == id.Name && i < len(actuals) && in.definedOutside(lp, actuals[i]) {
							if bv, ok := in.vals[actuals[i]]; ok && (bv.K == KRef) {
								baseRef = bv.T
							}
						}
					}
				}
				for k := range e.W.ghosts {
					if strings.HasSuffix(k, "."+sel.Sel.Name) && strings.Contains(k, ".") {
						comp := "gf:" + k
						g := e.W.ghosts[k]
						e.regComp(comp, "(Array Int "+g.Sort+")")
						if baseRef != "" && !m.comps[comp] {
							m.fieldAt[comp] = append(m.fieldAt[comp], baseRef)
						} else {
							delete(m.fieldAt, comp)
							m.comps[comp] = true
						}
						ghost = true
					}
				}
				if ghost {
					continue
				}
			}
			if con.Sig == nil {
				// the contract has not been bound to a signature yet (its function was not verified or called
				// before this loop is scanned): take it from the call
				if callee != nil {
					con.Sig = callee.Signature
				} else if c != nil && c.IsInvoke() {
					con.Sig, _ = c.Method.Type().(*types.Signature)
				} else if c != nil {
					con.Sig = c.Signature()
				}
			}
			if sel, ok := mi.Expr.(*ast.SelectorExpr); ok && sel.Sel.Name == "_all" {
				// x._all: every field of the object x points to (nested structs included); other objects of the
				// same type keep their fields when x is loop-invariant
				T := paramElemType(con, sel.X)
				if T == nil {
					m.all = true
					continue
				}
				if baseRef != "" {
					var addObj func(r string, T types.Type)
					addObj = func(r string, T types.Type) {
						stt, ok := T.Underlying().(*types.Struct)
						if !ok {
							return
						}
						for i := 0; i < stt.NumFields(); i++ {
							p := e.fieldAddr(r, T, i)
							ft := stt.Field(i).Type()
							switch ft.Underlying().(type) {
							case *types.Struct:
								addObj(p.T, ft)
							case *types.Array:
								m.mem = true
								*unknownMem = true
							default:
								if !m.comps[p.F] {
									m.fieldAt[p.F] = append(m.fieldAt[p.F], p.T)
								}
							}
						}
					}
					addObj(baseRef, T)
					continue
				}
				for _, name := range e.allComps(T) {
					delete(m.fieldAt, name)
					m.comps[name] = true
				}
				if hasArrayField(T, 0) {
					m.mem = true
					*unknownMem = true
				}
				continue
			}
			comps := e.W.fieldCompsOf(e, con, mi)
			if len(comps) == 0 {
				// unresolved field path: the loop may change anything
				m.all = true
				continue
			}
			if baseRef != "" && len(comps) == 1 && strings.HasPrefix(comps[0], "F:") && directScalarField(con, mi) {
				// x.f, f a scalar/slice/pointer field of the struct x points to, x loop-invariant: only that object
				if !m.comps[comps[0]] {
					m.fieldAt[comps[0]] = append(m.fieldAt[comps[0]], baseRef)
				}
				continue
			}
			for _, name := range comps {
				delete(m.fieldAt, name)
				m.comps[name] = true
			}
		}
	}
}

// paramElemType: x is a parameter of pointer-to-struct type; the struct type.
func paramElemType(con *Contract, x ast.Expr) types.Type {
	id, ok := x.(*ast.Ident)
	if !ok || con.Sig == nil {
		return nil
	}
	var all []*types.Var
	if con.Sig.Recv() != nil {
		all = append(all, con.Sig.Recv())
	}
	for i := 0; i < con.Sig.Params().Len(); i++ {
		all = append(all, con.Sig.Params().At(i))
	}
	for i, pn := range con.Params {
		if pn == id.Name && i < len(all) {
			T := all[i].Type()
			if pt, ok := T.Underlying().(*types.Pointer); ok {
				T = pt.Elem()
			}
			if _, ok := T.Underlying().(*types.Struct); ok {
				return T
			}
		}
	}
	return nil
}

// directScalarField: the modifies item is x.f with x a parameter of pointer-to-struct type and f a field declared
// directly in that struct whose type is not a struct or array (so its component is indexed by x itself).
func directScalarField(con *Contract, mi ModItem) bool {
	sel, ok := mi.Expr.(*ast.SelectorExpr)
	if !ok || con.Sig == nil {
		return false
	}
	id, ok := sel.X.(*ast.Ident)
	if !ok {
		return false
	}
	var all []*types.Var
	if con.Sig.Recv() != nil {
		all = append(all, con.Sig.Recv())
	}
	for i := 0; i < con.Sig.Params().Len(); i++ {
		all = append(all, con.Sig.Params().At(i))
	}
	for i, pn := range con.Params {
		if pn != id.Name || i >= len(all) {
			continue
		}
		pt, ok := all[i].Type().Underlying().(*types.Pointer)
		if !ok {
			return false
		}
		st, ok := pt.Elem().Underlying().(*types.Struct)
		if !ok {
			return false
		}
		for k := 0; k < st.NumFields(); k++ {
			if st.Field(k).Name() == sel.Sel.Name {
				switch st.Field(k).Type().Underlying().(type) {
				case *types.Struct, *types.Array:
					return false
				}
				return true
			}
		}
	}
	return false
}

// ---------------------------------------------------------------------------
// Inferred invariants
// ---------------------------------------------------------------------------

func (in *Inst) inferAuto(lp *Loop, phis []*ssa.Phi) {
	e := in.e
	// tracked slice phis: array is the entry array or fresh
	seenT := map[*ssa.Phi]bool{}
	for _, phi := range lp.tracked {
		if seenT[phi] {
			continue
		}
		seenT[phi] = true
		phi := phi
		entry := lp.phiEntry[phi]
		allocPre := lp.allocPre
		lp.autoInvs = append(lp.autoInvs, autoInv{key: "arr:" + phi.Comment, eval: func(pv func(*ssa.Phi) Val, st *State) string {
			v := pv(phi)
			return sOr(sEq(slcArr(v.T), slcArr(entry.T)), sApp(">=", slcArr(v.T), allocPre))
		}})
	}
	// counting phis
	for _, phi := range phis {
		if kindOfType(phi.Type()) != KInt || isFloat(phi.Type()) {
			continue
		}
		entry := lp.phiEntry[phi]
		ok := true
		step := int64(0)
		for i, p := range lp.header.Preds {
			if !lp.blocks[p] {
				continue
			}
			k, isInc := incOf(phi.Edges[i], phi, 0)
			if !isInc || k <= 0 || (step != 0 && k != step) {
				ok = false
				break
			}
			step = k
		}
		if !ok || step == 0 {
			continue
		}
		phi := phi
		// guard p < E (or p+1 < E for range loops) in the header with loop-invariant E
		var bound ssa.Value
		plus := int64(0)
		if iff, isIf := lp.header.Instrs[len(lp.header.Instrs)-1].(*ssa.If); isIf {
			if bo, isB := iff.Cond.(*ssa.BinOp); isB && bo.Op == token.LSS && in.definedOutside(lp, bo.Y) && lp.blocks[lp.header.Succs[0]] {
				if bo.X == ssa.Value(phi) {
					bound = bo.Y
				} else if k, isInc := incOf(bo.X, phi, 0); isInc && k == step {
					bound = bo.Y
					plus = k
				}
			}
		}
		lp.autoInvs = append(lp.autoInvs, autoInv{key: "lo:" + phi.Comment, eval: func(pv func(*ssa.Phi) Val, st *State) string {
			return sApp("<=", entry.T, pv(phi).T)
		}})
		if bound != nil && step == 1 {
			bv, have := in.vals[bound]
			if !have {
				if c, isC := bound.(*ssa.Const); isC {
					bv = e.constVal(c)
					have = true
				}
			}
			if have {
				strict := plus == step // the guard tests the incremented value (range loops)
				lp.autoInvs = append(lp.autoInvs, autoInv{key: "hi:" + phi.Comment, eval: func(pv func(*ssa.Phi) Val, st *State) string {
					if strict {
						return sOr(sApp("<", pv(phi).T, bv.T), sApp("<=", pv(phi).T, entry.T))
					}
					return sOr(sApp("<=", pv(phi).T, bv.T), sApp("<=", pv(phi).T, entry.T))
				}})
			}
		}
	}
}

// incOf: is v == phi + k (through a chain of additions of constants)?
func incOf(v ssa.Value, phi *ssa.Phi, depth int) (int64, bool) {
	if v == ssa.Value(phi) {
		return 0, true
	}
	if depth > 4 {
		return 0, false
	}
	switch b := v.(type) {
	case *ssa.BinOp:
		if b.Op == token.ADD {
			if c, ok := constInt(b.Y); ok {
				k, ok2 := incOf(b.X, phi, depth+1)
				return k + c, ok2
			}
			if c, ok := constInt(b.X); ok {
				k, ok2 := incOf(b.Y, phi, depth+1)
				return k + c, ok2
			}
		}
	case *ssa.Phi:
		// inner merge: all edges must agree
		var k0 int64
		for i, ed := range b.Edges {
			k, ok := incOf(ed, phi, depth+1)
			if !ok || (i > 0 && k != k0) {
				return 0, false
			}
			k0 = k
		}
		return k0, len(b.Edges) > 0
	}
	return 0, false
}

// checkFrameStore: placeholder for user-declared loop frames.
func (in *Inst) checkFrameStore(p Val, pos token.Pos, st *State) {}

// collectCallNames: names of all calls in the instructions and, transitively, in module callees and closures.
func collectCallNames(instrs []ssa.Instruction, names map[string]bool, seen map[*ssa.Function]bool, depth int) {
	for _, ins := range instrs {
		var c *ssa.CallCommon
		switch x := ins.(type) {
		case *ssa.Call:
			c = &x.Call
		case *ssa.Defer:
			c = &x.Call
		case *ssa.Go:
			names["go"] = true
			continue
		case *ssa.Select:
			names["select"] = true
			continue
		case *ssa.Lookup:
			names["maplookup"] = true
			continue
		case *ssa.Return:
			names["return"] = true
			continue
		case *ssa.MapUpdate:
			names["mapupdate"] = true
			continue
		case *ssa.MakeClosure:
			fn := x.Fn.(*ssa.Function)
			if !seen[fn] && depth < 7 {
				seen[fn] = true
				for _, b := range fn.Blocks {
					collectCallNames(b.Instrs, names, seen, depth+1)
				}
			}
			continue
		default:
			continue
		}
		names[calleeName(c)] = true
		if qn := calleeQName(c); qn != "" {
			names[qn] = true
		}
		if cal := c.StaticCallee(); cal != nil && !seen[cal] && depth < 7 && cal.Pkg != nil && strings.HasPrefix(cal.Pkg.Pkg.Path(), "github.com/cloudwego/hertz") {
			seen[cal] = true
			for _, b := range cal.Blocks {
				collectCallNames(b.Instrs, names, seen, depth+1)
			}
		}
	}
}
