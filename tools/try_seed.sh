#!/bin/sh
# usage: try_seed.sh <Cxx> [dir]   -- apply a seeded patch to /repo, run the property's check, undo.
# Evidence and replay files of this run go to a scratch directory, so that /verif/evidence always
# describes the unchanged tree.
id=$1; d=${2:-/tmp/seed/$id/out}
[ -z "$(git -C /repo status --porcelain)" ] || { echo "/repo has uncommitted changes; commit first"; exit 2; }
cd /repo && git apply "$d/patch.diff" || { echo "patch does not apply"; exit 2; }
export GOFLAGS=-mod=vendor GOPROXY=off GOSUMDB=off GOTOOLCHAIN=local CGO_ENABLED=0
sv=/tmp/tryseed.verif; rm -rf $sv; mkdir -p $sv; cp /verif/known_findings.json $sv/
cd /verif && ./bin/vcgo check $id --verif $sv 2>&1 | grep -v "^  failed" | grep -v "^KNOWN-FINDING\|^note:" | tail -8
cd /repo && git checkout -- . && git status --short | head -3
