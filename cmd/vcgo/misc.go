package main

import (
	"go/ast"
	"go/types"
)

// modPathLocs: the locations named by a field-kind modifies item, for the frame check.
func (in *Inst) modPathLocs(mi ModItem, pre *SpecEnv, fieldAt map[string][]string, addObj func(r string, T types.Type), addArr func(arr string)) {
	e := in.e
	switch n := mi.Expr.(type) {
	case *ast.StarExpr:
		p := pre.eval(n.X)
		if p.K == KRef && p.Ty != nil {
			if pt, ok := p.Ty.Underlying().(*types.Pointer); ok {
				addObj(p.T, pt.Elem())
				return
			}
		}
		if p.K == KPtrField {
			fieldAt[p.F] = append(fieldAt[p.F], p.T)
		}
	case *ast.SelectorExpr:
		base := pre.eval(n.X)
		if base.K != KRef || base.Ty == nil {
			e.fail("modifies %s: base is not a struct pointer", exprString(mi.Expr))
		}
		T := base.Ty
		if p, ok := T.Underlying().(*types.Pointer); ok {
			T = p.Elem()
		}
		if n.Sel.Name == "_all" {
			addObj(base.T, T)
			return
		}
		if gk, _, ok := e.W.ghostFieldKey(T, n.Sel.Name); ok {
			comp := "gf:" + gk
			fieldAt[comp] = append(fieldAt[comp], base.T)
			return
		}
		stt, ok := T.Underlying().(*types.Struct)
		if !ok {
			e.fail("modifies %s: not a struct", exprString(mi.Expr))
		}
		idx := findFieldPath(stt, n.Sel.Name)
		if idx == nil {
			e.fail("modifies %s: no such field", exprString(mi.Expr))
		}
		cur, curT := base.T, T
		for k, i := range idx {
			p := e.fieldAddr(cur, curT, i)
			ft := curT.Underlying().(*types.Struct).Field(i).Type()
			if k == len(idx)-1 {
				switch ft.Underlying().(type) {
				case *types.Struct:
					addObj(p.T, ft)
				case *types.Array:
					addArr(p.T)
				default:
					fieldAt[p.F] = append(fieldAt[p.F], p.T)
				}
				return
			}
			switch u := ft.Underlying().(type) {
			case *types.Struct:
				cur, curT = p.T, ft
			case *types.Pointer:
				v := pre.pureLoad(p, ft)
				cur, curT = v.T, u.Elem()
			}
		}
	}
}
