package main

import (
	"encoding/json"
	"flag"
	"fmt"
	"go/ast"
	"os"
	"path/filepath"
	"regexp"
	"sort"
	"strconv"
	"strings"
	"time"
)

type KnownFinding struct {
	Property   string `json:"property"`
	Obligation string `json:"obligation"` // obligation name without @retN suffix
	Status     string `json:"status"`     // finding | fixed
	What       string `json:"what"`
	Input      string `json:"input,omitempty"`
	Commit     string `json:"commit,omitempty"`
}

var retSuffix = regexp.MustCompile(`@ret\d+`)

func stableName(n string) string { return retSuffix.ReplaceAllString(n, "") }

func loadKnown(dir string) []KnownFinding {
	data, err := os.ReadFile(filepath.Join(dir, "known_findings.json"))
	if err != nil {
		return nil
	}
	var ks []KnownFinding
	if err := json.Unmarshal(data, &ks); err != nil {
		fmt.Fprintln(os.Stderr, "known_findings.json:", err)
	}
	return ks
}

type evFunc struct {
	Key         string   `json:"function"`
	Pos         string   `json:"pos"`
	SSAInstrs   int      `json:"ssa_instructions"`
	Mode        string   `json:"mode"`
	Obligations int      `json:"obligations"`
	Discharged  int      `json:"discharged"`
	Callees     []string `json:"callee_contracts_used,omitempty"`
}

type evSample struct {
	Name   string  `json:"obligation"`
	Status string  `json:"status"`
	Solver string  `json:"solver"`
	Secs   float64 `json:"secs"`
	Bytes  int     `json:"smt_bytes"`
}

func cmdCheck(args []string) int {
	fl := flag.NewFlagSet("check", flag.ExitOnError)
	repo := fl.String("repo", "/repo", "repository")
	tier := fl.String("tier", "quick", "quick|thorough")
	jobs := fl.Int("j", 16, "parallel solver jobs")
	verifDir := fl.String("verif", "/verif", "verification directory")
	verbose := fl.Bool("v", false, "verbose")
	// allow: check C01 --tier quick
	var prop string
	rest := args
	if len(args) > 0 && !strings.HasPrefix(args[0], "-") {
		prop = args[0]
		rest = args[1:]
	}
	fl.Parse(rest)
	if prop == "" && fl.NArg() > 0 {
		prop = fl.Arg(0)
	}
	if t := os.Getenv("VERIF_TIER"); t == "quick" || t == "thorough" {
		*tier = t
	}
	seed := 0
	if s := os.Getenv("VERIF_SEED"); s != "" {
		seed, _ = strconv.Atoi(s)
	}
	timeout := 10
	if *tier == "thorough" {
		timeout = 60
	}
	t0 := time.Now()
	replayDir := filepath.Join(*verifDir, "replays")
	os.MkdirAll(replayDir, 0o755)
	evPath := filepath.Join(*verifDir, "evidence", prop+".json")
	os.MkdirAll(filepath.Dir(evPath), 0o755)
	violations := 0
	var vioLines []string
	violate := func(obl, detail string, confirmed bool, extra map[string]interface{}) {
		violations++
		name := strings.NewReplacer("/", "_", ":", "_", "#", "_", " ", "_", "*", "_", "[", "_", "]", "_", "(", "_", ")", "_", "&", "_", "$", "_").Replace(obl)
		if len(name) > 120 {
			name = name[:120]
		}
		p := filepath.Join(replayDir, prop+"-"+name+".json")
		rec := map[string]interface{}{"property": prop, "obligation": obl, "detail": detail, "confirmed_on_real_code": confirmed}
		for k, v := range extra {
			rec[k] = v
		}
		data, _ := json.MarshalIndent(rec, "", " ")
		os.WriteFile(p, data, 0o644)
		line := fmt.Sprintf("VIOLATION property=%s replay=%s", prop, p)
		if !confirmed {
			line += " no-failing-input-found"
		}
		vioLines = append(vioLines, line)
		fmt.Printf("  failed obligation: %s (%s)\n", obl, detail)
		fmt.Println(line)
	}

	dirs := contractDirsFor(*repo, prop)
	if len(dirs) == 0 {
		dirs = contractDirs(*repo)
	}
	w, err := loadWorld(*repo, dirs)
	if err != nil {
		violate("machinery:load", err.Error(), false, nil)
		writeEvidence(evPath, prop, *tier, seed, nil, nil, 0, 0, violations, time.Since(t0).Seconds(), nil, nil, nil, 0, 0)
		return 1
	}
	w.curProp = prop
	known := loadKnown(*verifDir)
	var frs []*FuncResult
	for _, k := range w.conOrder {
		c := w.contracts[k]
		if c.Kind != "func" {
			continue
		}
		for _, p := range c.Props {
			if p == prop {
				frs = append(frs, w.verifyFunc(c))
				break
			}
		}
	}
	lemmaFrs := w.verifyLemmas(prop)
	frs = append(frs, lemmaFrs...)
	if len(frs) == 0 {
		violate("machinery:no-contracts", "no contract is tagged with this property", false, nil)
		writeEvidence(evPath, prop, *tier, seed, nil, nil, 0, 0, violations, time.Since(t0).Seconds(), nil, nil, nil, 0, 0)
		return 1
	}
	// clauses tagged for another property of a shared function are not part of this check
	for _, fr := range frs {
		if fr.Enc == nil {
			continue
		}
		var keep []*Obligation
		for _, o := range fr.Enc.obls {
			if o.Prop == "" || o.Prop == prop {
				keep = append(keep, o)
			}
		}
		fr.Enc.obls = keep
	}
	vs := runAll(frs, timeout, *jobs, replayDir)
	// thorough: re-decide with a second solver where the first answer was unsat
	agree, disagree := 0, 0
	if *tier == "thorough" {
		agree, disagree = crossCheck(vs, *jobs)
	}
	// tally
	byBackend := map[string]int{}
	solverTime := 0.0
	nObl, nDis, nKnown := 0, 0, 0
	perFn := map[string]*evFunc{}
	var fnOrder []string
	for _, fr := range frs {
		mode := "proof"
		if fr.Con != nil && fr.Con.Abstract {
			mode = "abstract (unknown calls havoc all non-ghost state)"
		}
		perFn[fr.Key] = &evFunc{Key: fr.Key, Pos: strings.TrimPrefix(fr.Pos, *repo+"/"), SSAInstrs: fr.SSASize, Mode: mode, Callees: fr.Callees}
		fnOrder = append(fnOrder, fr.Key)
		if fr.Err != "" {
			kind := "machinery:" + fr.Key
			if strings.HasPrefix(fr.Err, "binding:") {
				kind = "binding:" + fr.Key
			}
			// the contract no longer fits the code (or the code left the subset): nothing is proved for this
			// function. The hand-written reproductions of its contract can still find a failing input.
			extra := map[string]interface{}{"function": fr.Key}
			confirmed := false
			if fr.Con != nil && fr.Fn != nil {
				for ri, body := range fr.Con.ReplayGo {
					rr := w.replayGo(fr, body)
					extra[fmt.Sprintf("replay_go_%d", ri)] = rr
					if rr.Confirmed {
						confirmed = true
						break
					}
				}
			}
			violate(kind, "contract could not be applied to the current code, nothing proved for this function: "+fr.Err, confirmed, extra)
		}
	}
	assumptions := map[string]bool{}
	var samples []evSample
	smoke := 0
	// a function with a failed obligation assumes that obligation afterwards; its canaries may then
	// be refuted for that reason alone and are not reported separately
	failedFn := map[string]bool{}
	for _, v := range vs {
		if !v.Obl.Smoke && !v.Obl.Canary && v.Status != "unsat" {
			failedFn[v.Fn.Key] = true
		}
	}
	kfFails, kfPrinted := map[string]bool{}, map[string]bool{}
	replayMisses := map[string]int{}
	for _, v := range vs {
		if v.Status != "unsat" && !v.Obl.Smoke && !v.Obl.Canary {
			kfFails[stableName(v.Obl.Name)] = true
		}
	}
	for _, v := range vs {
		o := v.Obl
		solverTime += v.Time
		if o.Prop != "" && o.Prop != prop {
			continue // clause tagged for another property of the same function
		}
		if o.Smoke || o.Canary {
			smoke++
			if v.Status == "unsat" && !(o.Canary && failedFn[v.Fn.Key]) {
				what := "contradictory precondition or assumptions (smoke check refuted)"
				if o.Canary {
					what = "vacuous: `false` is provable at a reachable return"
				}
				violate("machinery:vacuity:"+o.Name, what, false, nil)
			}
			continue
		}
		ef := perFn[v.Fn.Key]
		kf := matchKnown(known, prop, o.Name)
		if kf != nil && kf.Status == "finding" {
			// a finding is listed by its stable obligation name; the obligation may be generated once per return
			// of the function and fail at some of them only: one KNOWN-FINDING line per name, the instances that
			// discharge count as ordinary discharged obligations, and the "no longer fails" note appears only when
			// no instance fails any more
			sn := stableName(o.Name)
			if v.Status != "unsat" {
				nKnown++
				if !kfPrinted[sn] {
					kfPrinted[sn] = true
					fmt.Printf("KNOWN-FINDING: property=%s %s: %s\n", prop, sn, kf.What)
				}
				continue
			}
			if !kfFails[sn] && !kfPrinted[sn] {
				kfPrinted[sn] = true
				fmt.Printf("note: known finding %s no longer fails at any return; remove it from known_findings.json\n", sn)
			}
		}
		nObl++
		ef.Obligations++
		if v.Status == "unsat" {
			nDis++
			ef.Discharged++
			byBackend[v.Solver]++
			if len(samples) < 12 && (o.Top || len(samples) < 6) {
				samples = append(samples, evSample{o.Name, v.Status, v.Solver, round3(v.Time), v.Size})
			}
			continue
		}
		// failed obligation: replay
		extra := map[string]interface{}{"solver_verdict": v.Status, "solver": v.Solver, "smt_file": v.SMTFile, "function": v.Fn.Key}
		if v.Model != nil {
			mm := map[string]string{}
			for _, mv := range v.Fn.Enc.modelDesc {
				mm[mv.Name] = modelValue(mv, v.Model)
			}
			extra["model"] = mm
			extra["model_is_candidate_from_quantifier_free_relaxation"] = v.Candidate
		}
		extra["solver_output"] = firstLines(v.Output, 6)
		confirmed := false
		// replays are `go test` runs of 10-30 s each and run one after the other: after two attempts for one
		// function that did not confirm, further failed obligations of that function are reported without a replay
		// (a change that refutes dozens of obligations of one function otherwise makes the failing run take minutes)
		skipReplay := replayMisses[v.Fn.Key] >= 2
		if skipReplay {
			extra["replay"] = "not attempted: two earlier replay attempts for this function did not reproduce a failure"
		}
		if v.Model != nil && !skipReplay {
			rr := w.replay(v, *repo, replayDir)
			extra["replay"] = rr
			confirmed = rr.Confirmed
			if !confirmed {
				replayMisses[v.Fn.Key]++
			}
		}
		if !confirmed && !skipReplay && v.Fn.Con != nil && v.Fn.Fn != nil {
			// replay seeds from the contract file (used only to find a concrete failing input)
			for wi, wm := range v.Fn.Con.Witnesses {
				args, ok := w.witnessArgs(v.Fn, wm)
				if !ok {
					continue
				}
				rr := w.runReplay(v.Fn, args)
				extra[fmt.Sprintf("replay_witness_%d", wi)] = rr
				if rr.Confirmed {
					confirmed = true
					break
				}
			}
			if !confirmed && (len(v.Fn.Con.Witnesses) > 0 || len(v.Fn.Con.ReplayGo) > 0) {
				replayMisses[v.Fn.Key]++
			}
			if !confirmed {
				for ri, body := range v.Fn.Con.ReplayGo {
					rr := w.replayGo(v.Fn, body)
					extra[fmt.Sprintf("replay_go_%d", ri)] = rr
					if rr.Confirmed {
						confirmed = true
						break
					}
				}
			}
		}
		violate(o.Name, "obligation not discharged ("+v.Status+")", confirmed, extra)
	}
	for _, fr := range frs {
		if fr.Enc != nil {
			for a := range fr.Enc.assumptions {
				assumptions[a] = true
			}
		}
	}
	var efs []*evFunc
	for _, k := range fnOrder {
		efs = append(efs, perFn[k])
	}
	if disagree > 0 {
		violate("machinery:solver-disagreement", fmt.Sprintf("%d obligations proved by one solver are refuted by another", disagree), false, nil)
	}
	// the slowest obligations of this run (margin against the per-obligation timeout)
	slow := append([]*Verdict(nil), vs...)
	sort.Slice(slow, func(i, j int) bool { return slow[i].Time > slow[j].Time })
	slowest = nil
	slowest = []evSample{}
	for i := 0; i < len(slow) && len(slowest) < 8; i++ {
		if slow[i].Obl.Smoke || slow[i].Obl.Canary {
			continue
		}
		slowest = append(slowest, evSample{slow[i].Obl.Name, slow[i].Status, slow[i].Solver, round3(slow[i].Time), slow[i].Size})
	}
	writeEvidence(evPath, prop, *tier, seed, efs, samples, nObl, nDis, violations, time.Since(t0).Seconds(), byBackend, sortedKeys(assumptions), known, solverTime, smoke)
	if *verbose {
		for _, v := range vs {
			fmt.Printf("%-8s %-10s %6.2fs %s\n", v.Status, v.Solver, v.Time, v.Obl.Name)
		}
	}
	fmt.Printf("%s tier=%s functions=%d obligations=%d discharged=%d known-findings=%d smoke/canary=%d violations=%d second-solver-agree=%d wall=%.1fs\n",
		prop, *tier, len(frs), nObl, nDis, nKnown, smoke, violations, agree, time.Since(t0).Seconds())
	if violations > 0 {
		return 1
	}
	return 0
}

func round3(x float64) float64 { return float64(int(x*1000+0.5)) / 1000 }

func matchKnown(ks []KnownFinding, prop, obl string) *KnownFinding {
	n := stableName(obl)
	for i := range ks {
		if ks[i].Property == prop && ks[i].Obligation == n {
			return &ks[i]
		}
	}
	return nil
}

var slowest []evSample

func writeEvidence(path, prop, tier string, seed int, fns []*evFunc, samples []evSample, nObl, nDis, violations int, wall float64,
	byBackend map[string]int, assumptions []string, known []KnownFinding, solverTime float64, smoke int) {
	var ks []string
	for _, k := range known {
		if k.Property == prop {
			ks = append(ks, k.Status+": "+k.Obligation+" — "+k.What)
		}
	}
	if samples == nil {
		samples = []evSample{}
	}
	trusted := []string{
		"go/parser, go/types, go/ssa lowering (golang.org/x/tools v0.29.0)",
		"vcgo VC generator and its semantic model (DESIGN.md section 2); guarded by smoke/canary checks and the must-fail corpus",
		"SMT solvers z3 5.1.0, z3 4.8.12, cvc5 1.0.3 (an unsat from one is accepted; thorough tier re-decides with a second)",
		"single-threaded execution of each verified function",
	}
	ev := map[string]interface{}{
		"property_id": prop,
		"tier":        tier,
		"seed":        seed,
		"level":       "proof",
		"coverage": map[string]interface{}{
			"obligations":              nObl,
			"discharged":               nDis,
			"checker_cmd":              "cd /verif && ./check " + prop + " --tier " + tier,
			"trusted_base":             trusted,
			"functions_under_contract": fns,
			"by_backend":               byBackend,
			"solver_time_s":            round3(solverTime),
			"smoke_and_canary_checks":  smoke,
			"samples":                  samples,
			"slowest_obligations":      slowest,
			"known_findings":           ks,
			"explanation":              "every obligation is generated from /repo's current source (go/ssa) and the contract files behind build tag verif, one SMT query per obligation; integers are modelled exactly (wrap-around), loops are cut at invariants, calls use callee contracts",
		},
		"assumptions": assumptions,
		"wall_s":      round3(wall),
		"violations":  violations,
	}
	data, _ := json.MarshalIndent(ev, "", " ")
	os.WriteFile(path, data, 0o644)
}

// crossCheck re-decides discharged obligations with a solver other than the one that proved them.
func crossCheck(vs []*Verdict, jobs int) (agree, disagree int) {
	type res struct{ agree, disagree bool }
	ch := make(chan res, len(vs))
	sem := make(chan struct{}, jobs)
	n := 0
	for _, v := range vs {
		if v.Status != "unsat" || v.Solver == "trivial" || v.Obl.Smoke || v.Obl.Canary {
			continue
		}
		n++
		v := v
		sem <- struct{}{}
		go func() {
			defer func() { <-sem }()
			script := v.Fn.Enc.script(v.Obl, false)
			sf, _ := os.CreateTemp(scratchDir(), "x*.smt2")
			sf.WriteString(script)
			sf.Close()
			defer os.Remove(sf.Name())
			r := res{}
			for _, s := range solvers {
				if s.name == v.Solver {
					continue
				}
				st, _, _ := runSolver(contextBackground(), s, sf.Name(), 20)
				if st == "unsat" {
					r.agree = true
					break
				}
				if st == "sat" {
					r.disagree = true
					break
				}
			}
			ch <- r
		}()
	}
	for i := 0; i < n; i++ {
		r := <-ch
		if r.agree {
			agree++
		}
		if r.disagree {
			disagree++
		}
	}
	return
}

func sortedStrings(m map[string]int) []string {
	var xs []string
	for k := range m {
		xs = append(xs, k)
	}
	sort.Strings(xs)
	return xs
}

// paramMayBeWritten: does the contract allow the function to write the bytes of this slice parameter?
func (e *Enc) paramMayBeWritten(name string) bool {
	if e.top == nil || e.top.con == nil {
		return true
	}
	con := e.top.con
	if con.ModifiesAll {
		return true
	}
	for _, mi := range con.Modifies {
		switch mi.Kind {
		case modMem:
			return true
		case modBytes:
			if id, ok := mi.Expr.(*ast.Ident); ok && id.Name == name {
				return true
			}
			if _, ok := mi.Expr.(*ast.Ident); !ok {
				return true
			}
		}
	}
	return false
}
