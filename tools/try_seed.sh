#!/bin/sh
# usage: try_seed.sh <Cxx> [dir]   -- apply a seeded patch to /repo, run the property's check, undo
id=$1; d=${2:-/tmp/seed/$id/out}
[ -z "$(git -C /repo status --porcelain)" ] || { echo "/repo has uncommitted changes; commit first"; exit 2; }
cd /repo && git apply "$d/patch.diff" || { echo "patch does not apply"; exit 2; }
cd /verif && ./check $id --tier quick 2>&1 | grep -v "^  failed" | tail -6
cd /repo && git checkout -- . && git status --short | head -3
