package main

import (
	"fmt"
	"go/token"
	"go/types"
	"sort"
	"strings"
	"sync"

	"golang.org/x/tools/go/ssa"
)

// ---------------------------------------------------------------------------
// Enc: one verification context (one function under contract, with its
// inlined callees). Produces declarations, axioms (unguarded definitions),
// ordered guarded assumptions ("steps") and obligations.
// ---------------------------------------------------------------------------

type Obligation struct {
	Name   string // stable name: <func>#<kind>:<key>
	Kind   string
	Pos    token.Pos
	Step   int    // number of steps in force
	Reach  string // reachability term
	Goal   string // must hold when reached
	Extra  []string
	Canary bool            // must fail (vacuity guard)
	Smoke  bool            // must NOT be refutable: reach satisfiable
	Models []string        // terms to evaluate in a model
	Top    bool            // clause marked as the property itself
	Blk    *ssa.BasicBlock // block of the top-level function where the obligation arises (nil: end of function)
	RetPos token.Pos       // the return statement whose epilogue raised the obligation
	Prop   string          // property tag of the clause ("" = every property of the function)
}

type Enc struct {
	pinned []pinnedCell // cells of write-once captured variables (abstract mode, closure under contract)
	W           *World
	fn          *ssa.Function
	fname       string
	decls       []string
	declared    map[string]bool
	axioms      []string
	steps       []string
	obls        []*Obligation
	sorts       map[string]string // component -> SMT sort
	nextID      int
	epochs      int
	abstract    bool // abstract mode: unknown calls havoc, no safety obligations
	safety      bool
	oblCount    map[string]int
	strConst    map[string]string // content -> ref term
	strList     []string
	memVers     []string // all fresh Mem versions (for constant-content axioms)
	ghostLoc    map[string]bool
	subFuncs    map[string]bool
	assumptions map[string]bool // trusted things used (for evidence)
	inlined     map[string]bool
	errs        []string
	closures    map[ssa.Value]*closureInfo
	deferSites  []*deferSite
	top         *Inst
	exactArith  bool
	modelTerms  []string
	modelDesc   []modelVar
	calleesUsed map[string]bool
	ownerSubs   bool
	stepBlk     []*ssa.BasicBlock // origin block (top-level function) of each step; nil = always relevant
	curBlk      *ssa.BasicBlock
	anc         map[*ssa.BasicBlock]map[*ssa.BasicBlock]bool
	ancMu       sync.Mutex
	curRet      int // source-order index of the return whose deferred calls are running (-1 otherwise)
	curRetPos   token.Pos
}

type modelVar struct {
	Name  string // parameter name
	Kind  string // int, bool, bytes, string
	Terms []string
	Ty    string
	Arr   string // slices: array term
	Mem0  string // slices: memory at entry
}

type closureInfo struct {
	fn       *ssa.Function
	bindings []Val
}

type deferSite struct {
	instr *ssa.Defer
	flag  string // component name (local Bool)
	inst  *Inst
	args  []Val
	fnVal Val
}

type unsupported struct{ msg string }

func (u unsupported) Error() string { return u.msg }

func (e *Enc) fail(format string, args ...interface{}) {
	panic(unsupported{fmt.Sprintf(format, args...)})
}

func (e *Enc) fresh(base string) string {
	e.nextID++
	return fmt.Sprintf("%s!%d", base, e.nextID)
}

func (e *Enc) declare(name, srt string) {
	if e.declared[name] {
		return
	}
	e.declared[name] = true
	e.decls = append(e.decls, fmt.Sprintf("(declare-fun %s () %s)", name, srt))
}

func (e *Enc) declareFun(name string, args []string, res string) {
	if e.declared[name] {
		return
	}
	e.declared[name] = true
	e.decls = append(e.decls, fmt.Sprintf("(declare-fun %s (%s) %s)", name, strings.Join(args, " "), res))
}

// define introduces a named term (macro). Always consistent.
func (e *Enc) define(base, srt, term string) string {
	name := sym(e.fresh(base))
	e.declared[name] = true
	if strings.HasPrefix(srt, "(Array") {
		// arrays are named by constants with a defining equation (always consistent), so that
		// quantifier patterns mention a constant rather than an expanded ite/store term
		e.decls = append(e.decls, fmt.Sprintf("(declare-fun %s () %s)", name, srt), fmt.Sprintf("(assert (= %s %s))", name, term))
		return name
	}
	e.decls = append(e.decls, fmt.Sprintf("(define-fun %s () %s %s)", name, srt, term))
	return name
}

func (e *Enc) freshConst(base, srt string) string {
	name := sym(e.fresh(base))
	e.declare(name, srt)
	return name
}

// axiom: unguarded fact; only for definitional facts about fresh symbols.
func (e *Enc) axiom(f string) {
	if f == "true" {
		return
	}
	e.decls = append(e.decls, "(assert "+f+")")
}

// assume: guarded fact in program order.
func (e *Enc) assume(reach, f string) {
	g := sImp(reach, f)
	if g == "true" {
		return
	}
	e.steps = append(e.steps, "(assert "+g+")")
	e.stepBlk = append(e.stepBlk, e.curBlk)
}

func (e *Enc) note(a string) { e.assumptions[a] = true }

func (e *Enc) compSort(name string) string {
	if s, ok := e.sorts[name]; ok {
		return s
	}
	switch {
	case name == "Mem":
		return "(Array Int (Array Int Int))"
	case name == "alloc":
		return "Int"
	}
	e.fail("unknown heap component %s", name)
	return ""
}

func (e *Enc) regComp(name, srt string) {
	if old, ok := e.sorts[name]; ok && old != srt {
		e.fail("component %s registered with sorts %s and %s", name, old, srt)
	}
	e.sorts[name] = srt
}

func (e *Enc) isGhostOrLocal(name string) bool {
	return strings.HasPrefix(name, "g:") || strings.HasPrefix(name, "L:")
}

// onFreshComp adds type-invariant facts for fresh heap versions.
func (e *Enc) onFreshComp(name, c string) {
	switch {
	case name == "Mem":
		e.memVers = append(e.memVers, c)
	case name == "alloc":
		e.axiom(sApp("<", "0", c))
	}
}

// strConstRef returns the array ref holding a constant byte string.
func (e *Enc) strConstRef(content string) string {
	if r, ok := e.strConst[content]; ok {
		return r
	}
	id := e.W.constID("s:" + content)
	r := sInt(-int64(id))
	e.strConst[content] = r
	e.strList = append(e.strList, content)
	return r
}

func (e *Enc) isConstRef(r string) bool {
	for _, x := range e.strConst {
		if x == r {
			return true
		}
	}
	return false
}

// constContent: the bytes of a literal constant slice term.
func (e *Enc) constContent(t string) (string, bool) {
	if t == nilSlc {
		return "", true
	}
	if !strings.HasPrefix(t, "(mk-slc ") {
		return "", false
	}
	parts := splitTop(t[8 : len(t)-1])
	if len(parts) != 4 {
		return "", false
	}
	for c, r := range e.strConst {
		if r == parts[0] {
			var off, ln int
			if _, err := fmt.Sscan(parts[1], &off); err != nil {
				return "", false
			}
			if _, err := fmt.Sscan(parts[2], &ln); err != nil {
				return "", false
			}
			if off < 0 || off+ln > len(c) {
				return "", false
			}
			return c[off : off+ln], true
		}
	}
	return "", false
}

func (e *Enc) strConstSlc(content string) string {
	if len(content) == 0 {
		return nilSlc
	}
	n := fmt.Sprint(len(content))
	return mkSlc(e.strConstRef(content), "0", n, n)
}

// constArrayTerm builds the inner array of a constant string.
func constArrayTerm(content string) string {
	var b strings.Builder
	for i := len(content) - 1; i >= 0; i-- {
		b.WriteString("(store ")
	}
	b.WriteString("((as const (Array Int Int)) 0)")
	for i := 0; i < len(content); i++ {
		fmt.Fprintf(&b, " %d %d)", i, content[i])
	}
	return b.String()
}

// constArrayDef: short constants are store chains; long ones (lookup tables) are an uninterpreted array with
// one equation per element, which keeps the array solver from case-splitting over the whole table on every
// symbolic index (indices outside the table are unconstrained: weaker, still sound).
func constArrayDef(name, content string) string {
	if len(content) <= 32 {
		return fmt.Sprintf("(define-fun %s () (Array Int Int) %s)", name, constArrayTerm(content))
	}
	var b strings.Builder
	fmt.Fprintf(&b, "(declare-fun %s () (Array Int Int))", name)
	for i := 0; i < len(content); i++ {
		fmt.Fprintf(&b, "\n(assert (= (select %s %d) %d))", name, i, content[i])
	}
	return b.String()
}

// constDefs: definitions of the constant arrays (this function's and those used by spec functions).
func (e *Enc) constDefs() []string {
	var out []string
	seen := map[string]bool{}
	for _, s := range e.strList {
		r := e.strConst[s]
		seen[r] = true
		out = append(out, constArrayDef(sym("CS!"+r), s))
	}
	for _, s := range e.W.specConstList {
		r := e.W.specConsts[s]
		if !seen[r] {
			out = append(out, constArrayDef(sym("CS!"+r), s))
		}
	}
	return out
}

// constAxioms: every Mem version holds the constant arrays unchanged.
func (e *Enc) constAxioms() []string {
	var out []string
	for _, s := range e.strList {
		r := e.strConst[s]
		cname := sym("CS!" + r)
		for _, m := range e.memVers {
			out = append(out, fmt.Sprintf("(assert (= (select %s %s) %s))", m, r, cname))
		}
	}
	return out
}

// script renders the SMT-LIB query of one obligation. With dropQuant, quantified
// hypotheses are omitted (candidate-model search only; never used as a proof).
func (e *Enc) script(o *Obligation, dropQuant bool) string {
	var body strings.Builder
	for _, d := range e.decls {
		if dropQuant && strings.HasPrefix(d, "(assert ") && hasQuantifier(d) {
			continue
		}
		body.WriteString(d)
		body.WriteByte('\n')
	}
	for _, d := range e.constAxioms() {
		body.WriteString(d)
		body.WriteByte('\n')
	}
	for si, s := range e.steps[:o.Step] {
		if dropQuant && hasQuantifier(s) {
			continue
		}
		if !e.relevant(e.stepBlk[si], o.Blk) {
			continue
		}
		body.WriteString(s)
		body.WriteByte('\n')
	}
	for _, x := range o.Extra {
		body.WriteString(x)
		body.WriteByte('\n')
	}
	body.WriteString("(assert " + o.Reach + ")\n")
	if !o.Smoke {
		n := 0
		g, decls := skolemize(o.Goal, func() string { n++; return sym(fmt.Sprintf("sk!%d", n)) })
		for _, d := range decls {
			body.WriteString(d)
			body.WriteByte('\n')
		}
		body.WriteString("(assert " + sNot(g) + ")\n")
	}
	body.WriteString("(check-sat)\n")
	bs := body.String()
	var b strings.Builder
	sp := e.W.specPreludeFor(bs, dropQuant)
	b.WriteString(preludeFor(bs+sp, dropQuant))
	for _, d := range e.constDefs() {
		b.WriteString(d)
		b.WriteByte('\n')
	}
	b.WriteString(sp)
	b.WriteString(bs)
	return b.String()
}

// relevant: can a fact established in block from matter at block at? Only if from reaches at
// in the loop-cut control-flow graph of the top-level function.
func (e *Enc) relevant(from, at *ssa.BasicBlock) bool {
	if from == nil || at == nil || from == at {
		return true
	}
	e.ancMu.Lock()
	defer e.ancMu.Unlock()
	if e.anc == nil {
		e.anc = map[*ssa.BasicBlock]map[*ssa.BasicBlock]bool{}
	}
	set, ok := e.anc[at]
	if !ok {
		set = map[*ssa.BasicBlock]bool{}
		var stack []*ssa.BasicBlock
		stack = append(stack, at)
		for len(stack) > 0 {
			x := stack[len(stack)-1]
			stack = stack[:len(stack)-1]
			for _, p := range x.Preds {
				if x.Dominates(p) {
					continue // back edge (cut)
				}
				if !set[p] {
					set[p] = true
					stack = append(stack, p)
				}
			}
		}
		e.anc[at] = set
	}
	return set[from]
}

// oblige records an obligation; afterwards the goal is assumed (first-cause reporting).
func (e *Enc) oblige(kind, key string, pos token.Pos, reach, goal string) *Obligation {
	base := e.fname + "#" + kind + ":" + key
	n := e.oblCount[base]
	e.oblCount[base] = n + 1
	name := base
	if n > 0 || kind == "index" || kind == "slice" || kind == "nil" || kind == "make" || kind == "div" {
		name = fmt.Sprintf("%s#%d", base, n)
	}
	o := &Obligation{Name: name, Kind: kind, Pos: pos, Step: len(e.steps), Reach: reach, Goal: goal, Blk: e.curBlk}
	if e.curRet >= 0 {
		o.RetPos = e.curRetPos
	}
	if goal == "true" || reach == "false" {
		// trivially discharged; still counted
		o.Goal = "true"
	}
	e.obls = append(e.obls, o)
	e.assume(reach, goal)
	return o
}

// ---------------------------------------------------------------------------
// Types -> components
// ---------------------------------------------------------------------------

func typeKey(t types.Type) string {
	return types.TypeString(t, func(p *types.Package) string { return p.Name() })
}

// structKey gives the component-name prefix for a struct type.
func structKey(t types.Type) string {
	if n, ok := t.(*types.Named); ok {
		obj := n.Obj()
		if obj.Pkg() != nil {
			return obj.Pkg().Name() + "." + obj.Name()
		}
		return obj.Name()
	}
	if a, ok := t.(*types.Alias); ok {
		return structKey(types.Unalias(a))
	}
	return typeKey(t)
}

// sortOfType returns the SMT sort holding a value of Go type t in a heap component ("" for structs/arrays).
func sortOfType(t types.Type) string {
	switch kindOfType(t) {
	case KInt, KRef, KPtrField:
		return "Int"
	case KBool:
		return "Bool"
	case KSlc:
		return "Slc"
	}
	return ""
}

// fieldComp returns the component name for field i of struct type st (named type T).
func (e *Enc) fieldComp(T types.Type, i int) (name string, ft types.Type) {
	st := T.Underlying().(*types.Struct)
	f := st.Field(i)
	ft = f.Type()
	name = "F:" + structKey(T) + "." + f.Name()
	if s := sortOfType(ft); s != "" {
		if _, isArr := ft.Underlying().(*types.Array); !isArr {
			e.regComp(name, "(Array Int "+s+")")
		}
	}
	return
}

// subRef returns the ref of an embedded struct/array field of object r.
func (e *Enc) subRef(T types.Type, i int, r string) string {
	st := T.Underlying().(*types.Struct)
	f := st.Field(i)
	fn := sym("sub:" + structKey(T) + "." + f.Name())
	if !e.subFuncs[fn] {
		e.subFuncs[fn] = true
		inv := sym("subinv:" + structKey(T) + "." + f.Name())
		id := e.W.constID("sub:" + fn)
		e.decls = append(e.decls,
			fmt.Sprintf("(declare-fun %s (Int) Int)", fn),
			fmt.Sprintf("(declare-fun %s (Int) Int)", inv),
			fmt.Sprintf("(assert (forall ((r Int)) (! (and (= (%s (%s r)) r) (= (refkind (%s r)) %d) (< (%s r) (- 1000000)) (= (root (%s r)) (root r)) (= (owner-arr (%s r)) (owner-arr r))) :pattern ((%s r)))))", inv, fn, fn, id+10, fn, fn, fn, fn))
	}
	return "(" + fn + " " + r + ")"
}

func cellComp(t types.Type) string { return "C:" + typeKey(t) }

// elemComp: component for non-Int-sorted array elements, indexed by elem(arr, idx).
func (e *Enc) elemComp(t types.Type) string {
	s := sortOfType(t)
	name := "E:" + s
	e.regComp(name, "(Array Int "+s+")")
	return name
}

// zeroVal returns the zero value of a Go type.
func (e *Enc) zeroVal(t types.Type) Val {
	switch kindOfType(t) {
	case KInt:
		return Val{K: KInt, T: "0", Ty: t}
	case KBool:
		return Val{K: KBool, T: "false", Ty: t}
	case KSlc:
		return Val{K: KSlc, T: nilSlc, Ty: t}
	case KRef:
		return Val{K: KRef, T: "0", Ty: t}
	case KPtrField:
		return Val{K: KPtrField, T: "0", F: cellComp(t.Underlying().(*types.Pointer).Elem()), Ty: t}
	case KStruct:
		v := Val{K: KStruct, Ty: t}
		switch u := t.Underlying().(type) {
		case *types.Struct:
			for i := 0; i < u.NumFields(); i++ {
				v.Fs = append(v.Fs, e.zeroVal(u.Field(i).Type()))
			}
		case *types.Tuple:
			for i := 0; i < u.Len(); i++ {
				v.Fs = append(v.Fs, e.zeroVal(u.At(i).Type()))
			}
		}
		return v
	}
	return Val{K: KUnit, Ty: t}
}

// freshVal returns an unconstrained value of type t (plus type invariants, guarded by reach).
func (e *Enc) freshVal(base string, t types.Type, st *State) Val {
	switch kindOfType(t) {
	case KInt:
		c := e.freshConst(base, "Int")
		if ii, ok := intInfoOf(t); ok {
			e.axiom(ii.rangeOf(c))
		}
		return Val{K: KInt, T: c, Ty: t}
	case KBool:
		return Val{K: KBool, T: e.freshConst(base, "Bool"), Ty: t}
	case KSlc:
		c := e.freshConst(base, "Slc")
		e.slcInv(c, t, st)
		return Val{K: KSlc, T: c, Ty: t}
	case KRef:
		c := e.freshConst(base, "Int")
		if st != nil {
			e.assume(st.reach, sApp("<", c, st.get("alloc")))
		}
		return Val{K: KRef, T: c, Ty: t}
	case KPtrField:
		c := e.freshConst(base, "Int")
		if st != nil {
			e.assume(st.reach, sApp("<", c, st.get("alloc")))
		}
		el := t.Underlying().(*types.Pointer).Elem()
		name := cellComp(el)
		if s := sortOfType(el); s != "" {
			e.regComp(name, "(Array Int "+s+")")
		}
		return Val{K: KPtrField, T: c, F: name, Ty: t}
	case KStruct:
		v := Val{K: KStruct, Ty: t}
		switch u := t.Underlying().(type) {
		case *types.Struct:
			for i := 0; i < u.NumFields(); i++ {
				v.Fs = append(v.Fs, e.freshVal(base+"."+u.Field(i).Name(), u.Field(i).Type(), st))
			}
		case *types.Tuple:
			for i := 0; i < u.Len(); i++ {
				v.Fs = append(v.Fs, e.freshVal(fmt.Sprintf("%s.%d", base, i), u.At(i).Type(), st))
			}
		}
		return v
	}
	return Val{K: KUnit, Ty: t}
}

const maxAlloc = "281474976710656" // 2^48

// slcInv: type invariant of a slice/string value.
func (e *Enc) slcInv(c string, t types.Type, st *State) {
	inv := sAnd(
		sApp("<=", "0", slcLen(c)), sApp("<=", slcLen(c), slcCap(c)), sApp("<=", slcCap(c), maxAlloc),
		sApp("<=", "0", slcOff(c)), sApp("<=", slcOff(c), maxAlloc),
		sImp(sEq(slcArr(c), "0"), sAnd(sEq(slcCap(c), "0"), sEq(slcOff(c), "0"))))
	e.axiom(inv)
	if st != nil {
		e.assume(st.reach, sApp("<", slcArr(c), st.get("alloc")))
	}
}

// typeInvOnLoad: range facts for a value just read from the heap.
func (e *Enc) typeInvOnLoad(v Val, t types.Type, st *State) {
	switch v.K {
	case KInt:
		if ii, ok := intInfoOf(t); ok {
			e.assume(st.reach, ii.rangeOf(v.T))
		}
	case KSlc:
		c := v.T
		e.assume(st.reach, sAnd(
			sApp("<=", "0", slcLen(c)), sApp("<=", slcLen(c), slcCap(c)), sApp("<=", slcCap(c), maxAlloc),
			sApp("<=", "0", slcOff(c)), sApp("<=", slcOff(c), maxAlloc),
			sImp(sEq(slcArr(c), "0"), sAnd(sEq(slcCap(c), "0"), sEq(slcOff(c), "0"))),
			sApp("<", slcArr(c), st.get("alloc"))))
	case KRef, KPtrField:
		e.assume(st.reach, sApp("<", v.T, st.get("alloc")))
	}
}

// ---------------------------------------------------------------------------
// Memory access through pointer values
// ---------------------------------------------------------------------------

// load reads the value of type t at pointer p.
func (e *Enc) load(st *State, p Val, t types.Type) Val {
	switch p.K {
	case KLocalObj:
		stt, ok := t.Underlying().(*types.Struct)
		if !ok {
			e.fail("load of %s from local object", t)
		}
		v := Val{K: KStruct, Ty: t}
		for i := 0; i < stt.NumFields(); i++ {
			v.Fs = append(v.Fs, e.load(st, e.localFieldAddr(p, t, i), stt.Field(i).Type()))
		}
		return v
	case KPtrField:
		if kindOfType(t) == KStruct || sortOfType(t) == "" {
			e.fail("load of %s through scalar pointer", t)
		}
		var term string
		if strings.HasPrefix(p.F, "L:") || strings.HasPrefix(p.F, "g:") {
			term = st.get(p.F)
		} else {
			term = sSel(st.get(p.F), p.T)
		}
		v := Val{K: kindOfType(t), T: term, Ty: t}
		if v.K == KPtrField {
			v.F = cellComp(t.Underlying().(*types.Pointer).Elem())
			e.regCell(t.Underlying().(*types.Pointer).Elem())
		}
		// name the loaded value so that later heap updates do not bloat terms
		v.T = e.define("ld", sortOfKind(v.K), term)
		e.typeInvOnLoad(v, t, st)
		return v
	case KPtrElem:
		return e.loadElem(st, p.T, p.I, t)
	case KRef:
		// pointer to struct: load whole struct value
		if s, ok := t.Underlying().(*types.Struct); ok {
			v := Val{K: KStruct, Ty: t}
			for i := 0; i < s.NumFields(); i++ {
				v.Fs = append(v.Fs, e.load(st, e.fieldAddr(p.T, t, i), s.Field(i).Type()))
			}
			return v
		}
		e.fail("load of %s through ref", t)
	}
	e.fail("load through %v", p.K)
	return Val{}
}

func (e *Enc) regCell(el types.Type) {
	if s := sortOfType(el); s != "" {
		e.regComp(cellComp(el), "(Array Int "+s+")")
	}
}

func (e *Enc) loadElem(st *State, arr, idx string, t types.Type) Val {
	switch kindOfType(t) {
	case KStruct:
		return e.load(st, vRef(sApp("elem", arr, idx)), t)
	case KInt, KRef:
		term := sSel(sSel(st.get("Mem"), arr), idx)
		v := Val{K: kindOfType(t), T: e.define("ld", "Int", term), Ty: t}
		e.typeInvOnLoad(v, t, st)
		return v
	case KPtrField:
		e.fail("array of scalar pointers")
	}
	comp := e.elemComp(t)
	term := sSel(st.get(comp), sApp("elem", arr, idx))
	v := Val{K: kindOfType(t), T: e.define("ld", sortOfKind(kindOfType(t)), term), Ty: t}
	e.typeInvOnLoad(v, t, st)
	return v
}

// fieldAddr returns the pointer to field i of the struct of type T at ref r.
func (e *Enc) fieldAddr(r string, T types.Type, i int) Val {
	name, ft := e.fieldComp(T, i)
	switch ft.Underlying().(type) {
	case *types.Struct, *types.Array:
		return Val{K: KRef, T: e.subRef(T, i, r), Ty: types.NewPointer(ft)}
	}
	return Val{K: KPtrField, T: r, F: name, Ty: types.NewPointer(ft)}
}

// store writes v (of type t) at pointer p.
func (e *Enc) store(st *State, p Val, v Val, t types.Type) {
	switch p.K {
	case KLocalObj:
		stt, ok := t.Underlying().(*types.Struct)
		if !ok || v.K != KStruct || len(v.Fs) != stt.NumFields() {
			e.fail("store of %s into local object", t)
		}
		for i := 0; i < stt.NumFields(); i++ {
			e.store(st, e.localFieldAddr(p, t, i), v.Fs[i], stt.Field(i).Type())
		}
	case KPtrField:
		if v.K == KStruct {
			e.fail("store of struct through scalar pointer")
		}
		term := e.valTerm(v)
		if strings.HasPrefix(p.F, "L:") || strings.HasPrefix(p.F, "g:") {
			st.set(p.F, term)
		} else {
			st.set(p.F, e.define("st", e.compSort(p.F), sStore(st.get(p.F), p.T, term)))
		}
	case KPtrElem:
		e.storeElem(st, p.T, p.I, v, t)
	case KRef:
		if s, ok := t.Underlying().(*types.Struct); ok {
			if v.K != KStruct || len(v.Fs) != s.NumFields() {
				e.fail("store of non-struct value into struct")
			}
			for i := 0; i < s.NumFields(); i++ {
				e.store(st, e.fieldAddr(p.T, t, i), v.Fs[i], s.Field(i).Type())
			}
			return
		}
		e.fail("store of %s through ref", t)
	default:
		e.fail("store through %v", p.K)
	}
}

func (e *Enc) storeElem(st *State, arr, idx string, v Val, t types.Type) {
	switch kindOfType(t) {
	case KStruct:
		e.store(st, vRef(sApp("elem", arr, idx)), v, t)
	case KInt, KRef:
		m := st.get("Mem")
		st.set("Mem", e.define("Mem", e.compSort("Mem"), sStore(m, arr, sStore(sSel(m, arr), idx, v.T))))
	case KPtrField:
		e.fail("array of scalar pointers")
	default:
		comp := e.elemComp(t)
		st.set(comp, e.define("st", e.compSort(comp), sStore(st.get(comp), sApp("elem", arr, idx), v.T)))
	}
}

// valTerm turns a scalar value into its SMT term (pointer values must be cell pointers).
func (e *Enc) valTerm(v Val) string {
	switch v.K {
	case KInt, KBool, KSlc, KRef:
		return v.T
	case KPtrField:
		if !strings.HasPrefix(v.F, "C:") && v.T != "0" {
			e.fail("pointer to field %s escapes into the heap", v.F)
		}
		return v.T
	}
	e.fail("value of kind %v has no single term", v.K)
	return ""
}

// zeroInit stores zero values into every field of a fresh struct at ref r.
func (e *Enc) zeroInit(st *State, r string, t types.Type) {
	switch u := t.Underlying().(type) {
	case *types.Struct:
		for i := 0; i < u.NumFields(); i++ {
			ft := u.Field(i).Type()
			p := e.fieldAddr(r, t, i)
			switch ft.Underlying().(type) {
			case *types.Struct, *types.Array:
				e.zeroInit(st, p.T, ft)
			default:
				e.store(st, p, e.zeroVal(ft), ft)
			}
		}
	case *types.Array:
		switch kindOfType(u.Elem()) {
		case KInt, KRef:
			m := st.get("Mem")
			st.set("Mem", e.define("Mem", e.compSort("Mem"), sStore(m, r, "((as const (Array Int Int)) 0)")))
		default:
			if u.Len() > 16 {
				e.fail("large array of non-scalar elements")
			}
			for i := int64(0); i < u.Len(); i++ {
				e.storeElem(st, r, sInt(i), e.zeroVal(u.Elem()), u.Elem())
			}
		}
	}
}

// allocRef returns a fresh object reference and bumps the allocation counter.
func (e *Enc) allocRef(st *State) string {
	a := st.get("alloc")
	r := e.define("new", "Int", a)
	st.set("alloc", e.define("alloc", "Int", sAdd(a, "1")))
	return r
}

// ---------------------------------------------------------------------------
// misc
// ---------------------------------------------------------------------------

func sortedKeys(m map[string]bool) []string {
	xs := []string{}
	for k := range m {
		xs = append(xs, k)
	}
	sort.Strings(xs)
	return xs
}

type pinnedCell struct{ comp, ref, val string }
