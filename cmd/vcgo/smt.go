package main

import (
	"fmt"
	"go/types"
	"math/big"
	"strings"
)

// ---------------------------------------------------------------------------
// SMT term helpers. Terms are plain strings in SMT-LIB2 concrete syntax.
// ---------------------------------------------------------------------------

const preludeCore = `(set-option :produce-models true)
(set-logic ALL)
(declare-datatypes ((Slc 0)) (((mk-slc (s-arr Int) (s-off Int) (s-len Int) (s-cap Int)))))
(declare-fun elem (Int Int) Int)
(declare-fun elem-arr (Int) Int)
(declare-fun elem-idx (Int) Int)
(declare-fun refkind (Int) Int)
(declare-fun dyntype (Int) Int)
(declare-fun root (Int) Int)
(declare-fun owner-arr (Int) Int)
(define-fun wrap64 ((x Int)) Int (- (mod (+ x 9223372036854775808) 18446744073709551616) 9223372036854775808))
(define-fun wrap32 ((x Int)) Int (- (mod (+ x 2147483648) 4294967296) 2147483648))
(define-fun wrap16 ((x Int)) Int (- (mod (+ x 32768) 65536) 32768))
(define-fun wrap8 ((x Int)) Int (- (mod (+ x 128) 256) 128))
(define-fun inrange ((lo Int) (x Int) (hi Int)) Bool (and (<= lo x) (<= x hi)))
(define-fun bit ((x Int) (k Int)) Int (mod (div x k) 2))
(define-fun bor1 ((a Int) (b Int)) Int (ite (or (= a 1) (= b 1)) 1 0))
(define-fun band1 ((a Int) (b Int)) Int (ite (and (= a 1) (= b 1)) 1 0))
(define-fun bxor1 ((a Int) (b Int)) Int (ite (= a b) 0 1))
(define-fun or8 ((a Int) (b Int)) Int (+ (bor1 (bit a 1) (bit b 1)) (* 2 (bor1 (bit a 2) (bit b 2))) (* 4 (bor1 (bit a 4) (bit b 4))) (* 8 (bor1 (bit a 8) (bit b 8))) (* 16 (bor1 (bit a 16) (bit b 16))) (* 32 (bor1 (bit a 32) (bit b 32))) (* 64 (bor1 (bit a 64) (bit b 64))) (* 128 (bor1 (bit a 128) (bit b 128)))))
(define-fun and8 ((a Int) (b Int)) Int (+ (band1 (bit a 1) (bit b 1)) (* 2 (band1 (bit a 2) (bit b 2))) (* 4 (band1 (bit a 4) (bit b 4))) (* 8 (band1 (bit a 8) (bit b 8))) (* 16 (band1 (bit a 16) (bit b 16))) (* 32 (band1 (bit a 32) (bit b 32))) (* 64 (band1 (bit a 64) (bit b 64))) (* 128 (band1 (bit a 128) (bit b 128)))))
(define-fun xor8 ((a Int) (b Int)) Int (+ (bxor1 (bit a 1) (bit b 1)) (* 2 (bxor1 (bit a 2) (bit b 2))) (* 4 (bxor1 (bit a 4) (bit b 4))) (* 8 (bxor1 (bit a 8) (bit b 8))) (* 16 (bxor1 (bit a 16) (bit b 16))) (* 32 (bxor1 (bit a 32) (bit b 32))) (* 64 (bxor1 (bit a 64) (bit b 64))) (* 128 (bxor1 (bit a 128) (bit b 128)))))
(declare-fun uf-or (Int Int) Int)
(declare-fun uf-and (Int Int) Int)
(declare-fun uf-xor (Int Int) Int)
(declare-fun uf-mul (Int Int) Int)
(declare-fun uf-div (Int Int) Int)
(declare-fun uf-mod (Int Int) Int)
(declare-fun uf-shl (Int Int) Int)
(declare-fun uf-shr (Int Int) Int)
(declare-fun str-eq (Slc Slc) Bool)
(declare-fun err-is (Int Int) Bool)
(declare-fun wire (Int Int) Int)
`

const preludeElem = `(assert (forall ((a Int) (i Int)) (! (and (= (elem-arr (elem a i)) a) (= (elem-idx (elem a i)) i) (< (elem a i) (- 1000000)) (= (refkind (elem a i)) 1) (= (root (elem a i)) (root a)) (= (owner-arr (elem a i)) a)) :pattern ((elem a i)))))
`
const preludeWire = `(assert (forall ((r Int) (k Int)) (! (and (<= 0 (wire r k)) (<= (wire r k) 255)) :pattern ((wire r k)))))
`
const preludeRoot = `(assert (forall ((r Int)) (! (=> (> r (- 1000000)) (= (root r) r)) :pattern ((root r)))))
`
const preludeOwner = `(assert (forall ((r Int)) (! (=> (> r (- 1000000)) (= (owner-arr r) 0)) :pattern ((owner-arr r)))))
`

// preludeFor includes only the quantified background axioms the query mentions.
func preludeFor(body string, dropQuant bool) string {
	p := preludeCore
	if dropQuant {
		return p
	}
	if strings.Contains(body, "(elem ") {
		p += preludeElem
	}
	if strings.Contains(body, "(wire ") {
		p += preludeWire
	}
	if strings.Contains(body, "(root ") {
		p += preludeRoot
	}
	if strings.Contains(body, "(owner-arr ") {
		p += preludeOwner
	}
	return p
}

func sym(s string) string {
	// quoted symbol; strip characters illegal inside |...|
	s = strings.NewReplacer("|", "!", "\\", "!").Replace(s)
	return "|" + s + "|"
}

func sAnd(xs ...string) string {
	var ys []string
	for _, x := range xs {
		if x == "true" || x == "" {
			continue
		}
		if x == "false" {
			return "false"
		}
		ys = append(ys, x)
	}
	switch len(ys) {
	case 0:
		return "true"
	case 1:
		return ys[0]
	}
	return "(and " + strings.Join(ys, " ") + ")"
}

func sOr(xs ...string) string {
	var ys []string
	for _, x := range xs {
		if x == "false" || x == "" {
			continue
		}
		if x == "true" {
			return "true"
		}
		ys = append(ys, x)
	}
	switch len(ys) {
	case 0:
		return "false"
	case 1:
		return ys[0]
	}
	return "(or " + strings.Join(ys, " ") + ")"
}

func sNot(x string) string {
	switch x {
	case "true":
		return "false"
	case "false":
		return "true"
	}
	if strings.HasPrefix(x, "(not ") && balanced(x[5:len(x)-1]) {
		return x[5 : len(x)-1]
	}
	return "(not " + x + ")"
}

func balanced(s string) bool {
	d := 0
	inq := false
	for _, c := range s {
		switch {
		case c == '|':
			inq = !inq
		case inq:
		case c == '(':
			d++
		case c == ')':
			d--
			if d < 0 {
				return false
			}
		}
	}
	return d == 0
}

func sImp(a, b string) string {
	if a == "true" {
		return b
	}
	if a == "false" || b == "true" {
		return "true"
	}
	return "(=> " + a + " " + b + ")"
}

func sIte(c, a, b string) string {
	if c == "true" {
		return a
	}
	if c == "false" {
		return b
	}
	if a == b {
		return a
	}
	return "(ite " + c + " " + a + " " + b + ")"
}

func sEq(a, b string) string {
	if a == b {
		return "true"
	}
	return "(= " + a + " " + b + ")"
}

func sApp(f string, args ...string) string {
	return "(" + f + " " + strings.Join(args, " ") + ")"
}

func sInt(n int64) string {
	if n < 0 {
		return fmt.Sprintf("(- %d)", -n)
	}
	return fmt.Sprintf("%d", n)
}

func sBig(n *big.Int) string {
	if n.Sign() < 0 {
		return "(- " + new(big.Int).Neg(n).String() + ")"
	}
	return n.String()
}

func sAdd(a, b string) string {
	if b == "0" {
		return a
	}
	if a == "0" {
		return b
	}
	return linNormalize("(+ " + a + " " + b + ")")
}

func sSub(a, b string) string {
	if b == "0" {
		return a
	}
	return linNormalize("(- " + a + " " + b + ")")
}

func sSel(a, i string) string { return "(select " + a + " " + i + ")" }
func sStore(a, i, v string) string {
	return "(store " + a + " " + i + " " + v + ")"
}

func slcArr(s string) string { return slcProj("s-arr", s, 0) }
func slcOff(s string) string { return slcProj("s-off", s, 1) }
func slcLen(s string) string { return slcProj("s-len", s, 2) }
func slcCap(s string) string { return slcProj("s-cap", s, 3) }

// slcProj simplifies projections of literal mk-slc terms.
func slcProj(sel, s string, k int) string {
	if strings.HasPrefix(s, "(mk-slc ") {
		parts := splitTop(s[8 : len(s)-1])
		if len(parts) == 4 {
			return parts[k]
		}
	}
	return "(" + sel + " " + s + ")"
}

func mkSlc(arr, off, ln, cp string) string {
	return "(mk-slc " + arr + " " + off + " " + ln + " " + cp + ")"
}

const nilSlc = "(mk-slc 0 0 0 0)"

// splitTop splits an s-expression argument list at top-level whitespace.
func splitTop(s string) []string {
	var out []string
	d := 0
	inq := false
	start := -1
	for i, c := range s {
		switch {
		case c == '|':
			if start < 0 {
				start = i
			}
			inq = !inq
		case inq:
		case c == '(':
			if start < 0 {
				start = i
			}
			d++
		case c == ')':
			d--
		case c == ' ' || c == '\n' || c == '\t':
			if d == 0 && start >= 0 {
				out = append(out, s[start:i])
				start = -1
			}
		default:
			if start < 0 {
				start = i
			}
		}
	}
	if start >= 0 {
		out = append(out, s[start:])
	}
	return out
}

// ---------------------------------------------------------------------------
// Integer type ranges
// ---------------------------------------------------------------------------

type intInfo struct {
	bits   int
	signed bool
}

func intInfoOf(t types.Type) (intInfo, bool) {
	b, ok := t.Underlying().(*types.Basic)
	if !ok {
		return intInfo{}, false
	}
	switch b.Kind() {
	case types.Int, types.Int64, types.UntypedInt, types.UntypedRune:
		return intInfo{64, true}, true
	case types.Int32:
		return intInfo{32, true}, true
	case types.Int16:
		return intInfo{16, true}, true
	case types.Int8:
		return intInfo{8, true}, true
	case types.Uint, types.Uint64, types.Uintptr:
		return intInfo{64, false}, true
	case types.Uint32:
		return intInfo{32, false}, true
	case types.Uint16:
		return intInfo{16, false}, true
	case types.Uint8:
		return intInfo{8, false}, true
	}
	return intInfo{}, false
}

func (ii intInfo) lo() *big.Int {
	if !ii.signed {
		return big.NewInt(0)
	}
	x := new(big.Int).Lsh(big.NewInt(1), uint(ii.bits-1))
	return x.Neg(x)
}

func (ii intInfo) hi() *big.Int {
	n := ii.bits
	if ii.signed {
		n--
	}
	x := new(big.Int).Lsh(big.NewInt(1), uint(n))
	return x.Sub(x, big.NewInt(1))
}

func (ii intInfo) rangeOf(x string) string {
	return sApp("inrange", sBig(ii.lo()), x, sBig(ii.hi()))
}

// wrap reduces a mathematical integer to the machine type.
func (ii intInfo) wrap(x string) string {
	if ii.signed {
		return fmt.Sprintf("(wrap%d %s)", ii.bits, x)
	}
	m := new(big.Int).Lsh(big.NewInt(1), uint(ii.bits))
	return "(mod " + x + " " + m.String() + ")"
}

// wrapIfNeeded: exact machine semantics without losing the common case.
func (ii intInfo) wrapIte(x string) string {
	return sIte(ii.rangeOf(x), x, ii.wrap(x))
}
