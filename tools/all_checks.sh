#!/bin/sh
# runs every claimed quick check on the current tree; prints only failures. Run before every commit of /verif.
cd /verif
ids=$(python3 -c "import json; print(' '.join(c['property_id'] for c in json.load(open('MANIFEST.json'))['checks']))")
fails=0
for p in $ids; do ./check $p --tier quick > /tmp/chk.$p.log 2>&1 || { fails=1; echo "FAIL $p"; grep -v "^KNOWN" /tmp/chk.$p.log | tail -3; }; done
echo "all_checks: fails=$fails"
exit $fails
