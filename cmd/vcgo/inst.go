package main

import (
	"fmt"
	"go/ast"
	"go/constant"
	"go/token"
	"go/types"
	"math/big"
	"sort"
	"strings"

	"golang.org/x/tools/go/ssa"
)

// Inst: one function body being encoded (top-level or inlined).
type Inst struct {
	e             *Enc
	fn            *ssa.Function
	prefix        string
	depth         int
	vals          map[ssa.Value]Val
	out           map[*ssa.BasicBlock]*State
	in            map[*ssa.BasicBlock]*State
	loops         []*Loop
	loopOf        map[*ssa.BasicBlock]*Loop // header -> loop
	con           *Contract
	entry         *State // entry state (for old())
	rets          []retPoint
	parent        *Inst
	callPos       token.Pos
	recvNonNil    bool
	panicsAllowed bool
}

type retPoint struct {
	st      *State
	results []Val
	pos     token.Pos
	blk     *ssa.BasicBlock
	idx     int // source-order index among the function's returns
}

func (e *Enc) newInst(fn *ssa.Function, parent *Inst) *Inst {
	e.nextID++
	in := &Inst{e: e, fn: fn, prefix: fmt.Sprintf("i%d", e.nextID), vals: map[ssa.Value]Val{},
		out: map[*ssa.BasicBlock]*State{}, in: map[*ssa.BasicBlock]*State{}, parent: parent}
	if parent != nil {
		in.depth = parent.depth + 1
	}
	return in
}

func (in *Inst) name(v ssa.Value) string {
	return in.prefix + "!" + v.Name()
}

// val returns the Val of an SSA operand.
func (in *Inst) val(v ssa.Value, st *State) Val {
	if x, ok := in.vals[v]; ok {
		return x
	}
	e := in.e
	switch c := v.(type) {
	case *ssa.Const:
		return e.constVal(c)
	case *ssa.Global:
		return e.globalAddr(c)
	case *ssa.Function:
		id := e.W.constID("fn:" + c.String())
		return Val{K: KRef, T: sInt(-int64(id)), Ty: c.Type()}
	case *ssa.Builtin:
		return Val{K: KRef, T: "0", Ty: c.Type()}
	}
	e.fail("value %s (%T) used before definition in %s", v.Name(), v, in.fn.Name())
	return Val{}
}

func (e *Enc) constVal(c *ssa.Const) Val {
	t := c.Type()
	if c.Value == nil {
		return e.zeroVal(t)
	}
	switch kindOfType(t) {
	case KInt:
		if isFloat(t) {
			id := e.W.constID("float:" + c.Value.ExactString())
			return Val{K: KInt, T: sInt(int64(id)), Ty: t}
		}
		if bi, ok := constant.Val(constant.ToInt(c.Value)).(*big.Int); ok {
			return Val{K: KInt, T: sBig(bi), Ty: t}
		}
		n, _ := constant.Int64Val(constant.ToInt(c.Value))
		if u, ok := constant.Uint64Val(constant.ToInt(c.Value)); ok && n < 0 && constant.Sign(c.Value) > 0 {
			return Val{K: KInt, T: new(big.Int).SetUint64(u).String(), Ty: t}
		}
		return Val{K: KInt, T: sInt(n), Ty: t}
	case KBool:
		if constant.BoolVal(c.Value) {
			return Val{K: KBool, T: "true", Ty: t}
		}
		return Val{K: KBool, T: "false", Ty: t}
	case KSlc:
		return Val{K: KSlc, T: e.strConstSlc(constant.StringVal(c.Value)), Ty: t}
	}
	e.fail("constant of type %s", t)
	return Val{}
}

// globalAddr: pointer to a package-level variable.
func (e *Enc) globalAddr(g *ssa.Global) Val {
	t := g.Type().Underlying().(*types.Pointer).Elem()
	key := g.Pkg.Pkg.Name() + "." + g.Name()
	switch t.Underlying().(type) {
	case *types.Struct, *types.Array:
		id := e.W.constID("gobj:" + key)
		return Val{K: KRef, T: sInt(-int64(id)), Ty: g.Type()}
	}
	name := "G:" + key
	e.regComp(name, "(Array Int "+sortOfType(t)+")")
	return Val{K: KPtrField, T: "0", F: name, Ty: g.Type()}
}

// ---------------------------------------------------------------------------
// CFG processing
// ---------------------------------------------------------------------------

// edgeCond: condition under which control flows from block p to its successor index k.
func (in *Inst) edgeCond(p *ssa.BasicBlock, k int, st *State) string {
	if len(p.Instrs) == 0 {
		return "true"
	}
	if iff, ok := p.Instrs[len(p.Instrs)-1].(*ssa.If); ok {
		c := in.val(iff.Cond, st).T
		if k == 0 {
			return c
		}
		return sNot(c)
	}
	return "true"
}

func succIndex(p, b *ssa.BasicBlock, nth int) int {
	// index of the nth occurrence of b among p's successors
	for i, s := range p.Succs {
		if s == b {
			if nth == 0 {
				return i
			}
			nth--
		}
	}
	return -1
}

type edge struct {
	from *ssa.BasicBlock
	k    int // successor index in from
	pidx int // predecessor index in target
}

func predEdges(b *ssa.BasicBlock) []edge {
	var es []edge
	seen := map[*ssa.BasicBlock]int{}
	for pi, p := range b.Preds {
		n := seen[p]
		seen[p] = n + 1
		es = append(es, edge{p, succIndex(p, b, n), pi})
	}
	return es
}

// run encodes the whole body. Entry state is given; returns are collected in in.rets.
func (in *Inst) run(entry *State) {
	e := in.e
	fn := in.fn
	if len(fn.Blocks) == 0 {
		e.fail("function %s has no body", fn)
	}
	in.initDefers(entry)
	in.entry = entry.clone()
	in.findLoops()
	order := in.rpo()
	for _, b := range order {
		var st *State
		if in.parent == nil {
			in.e.curBlk = b
		}
		if b == fn.Blocks[0] {
			st = entry.clone()
		} else if lp := in.loopOf[b]; lp != nil {
			st = in.enterLoop(lp)
		} else {
			st = in.mergeInto(b, predEdges(b), true)
		}
		if st == nil {
			continue // unreachable
		}
		in.in[b] = st
		in.block(b, st)
	}
}

// rpo: reverse post-order ignoring back edges.
func (in *Inst) rpo() []*ssa.BasicBlock {
	seen := map[*ssa.BasicBlock]bool{}
	var post []*ssa.BasicBlock
	var dfs func(b *ssa.BasicBlock)
	dfs = func(b *ssa.BasicBlock) {
		seen[b] = true
		for _, s := range b.Succs {
			if !seen[s] {
				dfs(s)
			}
		}
		post = append(post, b)
	}
	dfs(in.fn.Blocks[0])
	for i, j := 0, len(post)-1; i < j; i, j = i+1, j-1 {
		post[i], post[j] = post[j], post[i]
	}
	// A DFS-based RPO respects all forward edges of a reducible CFG.
	return post
}

// mergeInto builds the in-state of block b from the given predecessor edges
// and defines b's phis (when definePhis).
func (in *Inst) mergeInto(b *ssa.BasicBlock, es []edge, definePhis bool) *State {
	e := in.e
	type inc struct {
		st    *State
		guard string
		ed    edge
	}
	var incs []inc
	for _, ed := range es {
		ps := in.out[ed.from]
		if ps == nil {
			continue
		}
		g := sAnd(ps.reach, in.edgeCond(ed.from, ed.k, ps))
		if g == "false" {
			continue
		}
		incs = append(incs, inc{ps, g, ed})
	}
	if len(incs) == 0 {
		return nil
	}
	var st *State
	if len(incs) == 1 {
		st = incs[0].st.clone()
		st.reach = e.define("reach", "Bool", incs[0].guard)
	} else {
		ep := &Epoch{id: e.newEpoch(), kind: epMerge, memo: map[string]string{}, enc: e}
		var gs []string
		for _, ic := range incs {
			ep.preds = append(ep.preds, ic.st)
			ep.guards = append(ep.guards, ic.guard)
			gs = append(gs, ic.guard)
		}
		st = &State{ep: ep, ov: map[string]string{}, reach: e.define("reach", "Bool", sOr(gs...))}
		// components overridden in any predecessor must be merged eagerly enough:
		// resolution is lazy and consults the predecessor states, so nothing to do here.
	}
	if definePhis {
		for _, ins := range b.Instrs {
			phi, ok := ins.(*ssa.Phi)
			if !ok {
				break
			}
			var vs []Val
			var gs []string
			for _, ic := range incs {
				vs = append(vs, in.val(phi.Edges[ic.ed.pidx], ic.st))
				gs = append(gs, ic.guard)
			}
			in.vals[phi] = e.mergeVals(in.name(phi), phi.Type(), vs, gs)
		}
	}
	return st
}

func (e *Enc) newEpoch() int { e.epochs++; return e.epochs }

// mergeVals: ite-chain over guards.
func (e *Enc) mergeVals(base string, t types.Type, vs []Val, gs []string) Val {
	if len(vs) == 0 {
		e.fail("merge of zero values")
	}
	first := vs[0]
	switch first.K {
	case KStruct:
		r := Val{K: KStruct, Ty: t}
		for i := range first.Fs {
			var fs []Val
			for _, v := range vs {
				if v.K != KStruct || len(v.Fs) != len(first.Fs) {
					e.fail("merge of incompatible struct values")
				}
				fs = append(fs, v.Fs[i])
			}
			r.Fs = append(r.Fs, e.mergeVals(fmt.Sprintf("%s.%d", base, i), first.Fs[i].Ty, fs, gs))
		}
		return r
	case KUnit:
		return first
	case KPtrElem:
		r := first
		ta, ti := vs[len(vs)-1].T, vs[len(vs)-1].I
		for i := len(vs) - 2; i >= 0; i-- {
			if vs[i].K != KPtrElem {
				e.fail("merge of element pointer with other pointer")
			}
			ta = sIte(gs[i], vs[i].T, ta)
			ti = sIte(gs[i], vs[i].I, ti)
		}
		r.T = e.define(base+".arr", "Int", ta)
		r.I = e.define(base+".idx", "Int", ti)
		return r
	}
	for _, v := range vs {
		if v.K != first.K && !(v.T == "0" && (v.K == KRef || v.K == KPtrField) && (first.K == KRef || first.K == KPtrField)) {
			e.fail("merge of values of different kinds (%v, %v)", first.K, v.K)
		}
		if v.K == KPtrField && first.K == KPtrField && v.F != first.F && v.T != "0" && first.T != "0" {
			e.fail("merge of pointers into different components (%s, %s)", first.F, v.F)
		}
	}
	term := vs[len(vs)-1].T
	for i := len(vs) - 2; i >= 0; i-- {
		term = sIte(gs[i], vs[i].T, term)
	}
	r := first
	for _, v := range vs {
		if v.K == KPtrField && v.T != "0" {
			r = v
		}
	}
	r.Ty = t
	if term != first.T || len(vs) > 1 {
		r.T = e.define(base, sortOfKind(first.K), term)
	}
	return r
}

// block encodes the instructions of b starting in state st.
func (in *Inst) block(b *ssa.BasicBlock, st *State) {
	if in.parent == nil {
		in.e.curBlk = b
	}
	for _, ins := range b.Instrs {
		if _, ok := ins.(*ssa.Phi); ok {
			continue
		}
		if st.reach == "false" {
			break
		}
		in.instr(ins, st)
	}
	in.out[b] = st
	// back edges and edges into loop headers produce invariant obligations
	for k, s := range b.Succs {
		if lp := in.loopOf[s]; lp != nil {
			if lp.blocks[b] {
				in.backEdge(lp, b, k, st)
			}
		}
	}
}

// ---------------------------------------------------------------------------
// Source text for obligation keys
// ---------------------------------------------------------------------------

func (in *Inst) srcKey(pos token.Pos) string {
	return in.e.W.nodeText(in.fn, pos)
}

func (w *World) nodeText(fn *ssa.Function, pos token.Pos) string {
	if !pos.IsValid() {
		return "?"
	}
	f := w.fileOf(pos)
	if f == nil {
		return "?"
	}
	var best ast.Node
	ast.Inspect(f, func(n ast.Node) bool {
		if n == nil {
			return false
		}
		if n.Pos() <= pos && pos < n.End() {
			switch n.(type) {
			case ast.Expr:
				best = n
			}
			return true
		}
		return false
	})
	if best == nil {
		return "?"
	}
	// for index/slice expressions pos is the bracket; best is then the innermost
	// expression containing it. Walk up is not available, so re-inspect for
	// index/slice/star/selector nodes whose operator position equals pos.
	var exact ast.Node
	ast.Inspect(f, func(n ast.Node) bool {
		if n == nil {
			return false
		}
		if !(n.Pos() <= pos && pos < n.End()) {
			return false
		}
		switch x := n.(type) {
		case *ast.IndexExpr:
			if x.Lbrack == pos {
				exact = n
			}
		case *ast.SliceExpr:
			if x.Lbrack == pos {
				exact = n
			}
		case *ast.CallExpr:
			if x.Lparen == pos || x.Pos() == pos {
				exact = n
			}
		case *ast.BinaryExpr:
			if x.OpPos == pos {
				exact = n
			}
		case *ast.StarExpr:
			if x.Star == pos {
				exact = n
			}
		case *ast.SelectorExpr:
			if x.Sel.Pos() == pos {
				exact = n
			}
		}
		return true
	})
	if exact != nil {
		best = exact
	}
	s := w.srcText(best.Pos(), best.End())
	s = strings.Join(strings.Fields(s), " ")
	if len(s) > 60 {
		s = s[:60]
	}
	return s
}

// ---------------------------------------------------------------------------
// Instructions
// ---------------------------------------------------------------------------

func (in *Inst) instr(ins ssa.Instruction, st *State) {
	e := in.e
	switch x := ins.(type) {
	case *ssa.DebugRef:
	case *ssa.Alloc:
		in.vals[x] = in.alloc(x, st)
	case *ssa.BinOp:
		in.vals[x] = in.binop(x, st)
	case *ssa.UnOp:
		in.vals[x] = in.unop(x, st)
	case *ssa.Call:
		in.call(x, st)
	case *ssa.ChangeInterface:
		v := in.val(x.X, st)
		v.Ty = x.Type()
		in.vals[x] = v
	case *ssa.ChangeType:
		v := in.val(x.X, st)
		v.Ty = x.Type()
		in.vals[x] = v
	case *ssa.Convert:
		in.vals[x] = in.convert(x, st)
	case *ssa.Extract:
		t := in.val(x.Tuple, st)
		if t.K != KStruct || x.Index >= len(t.Fs) {
			e.fail("extract from non-tuple")
		}
		in.vals[x] = t.Fs[x.Index]
	case *ssa.Field:
		t := in.val(x.X, st)
		if t.K != KStruct {
			e.fail("field of non-struct value")
		}
		in.vals[x] = t.Fs[x.Field]
	case *ssa.FieldAddr:
		base := in.val(x.X, st)
		T := x.X.Type().Underlying().(*types.Pointer).Elem()
		if base.K == KLocalObj {
			in.vals[x] = e.localFieldAddr(base, T, x.Field)
			break
		}
		in.nilCheck(base, x.X, x.Pos(), st)
		in.vals[x] = e.fieldAddr(base.T, T, x.Field)
	case *ssa.IndexAddr:
		in.vals[x] = in.indexAddr(x, st)
	case *ssa.Index:
		in.vals[x] = in.index(x, st)
	case *ssa.Slice:
		in.vals[x] = in.slice(x, st)
	case *ssa.Store:
		p := in.val(x.Addr, st)
		v := in.val(x.Val, st)
		in.checkFrameStore(p, x.Pos(), st)
		e.store(st, p, v, x.Val.Type())
	case *ssa.MakeSlice:
		in.vals[x] = in.makeSlice(x, st)
	case *ssa.MakeInterface:
		v := in.val(x.X, st)
		switch v.K {
		case KRef:
			in.vals[x] = Val{K: KRef, T: v.T, Ty: x.Type()}
		default:
			r := e.freshConst(in.name(x), "Int")
			e.axiom(sNot(sEq(r, "0")))
			in.vals[x] = Val{K: KRef, T: r, Ty: x.Type()}
		}
	case *ssa.MakeClosure:
		fnv := x.Fn.(*ssa.Function)
		ci := &closureInfo{fn: fnv}
		for _, b := range x.Bindings {
			ci.bindings = append(ci.bindings, in.val(b, st))
		}
		r := e.allocRef(st)
		e.closures[x] = ci
		in.vals[x] = Val{K: KRef, T: r, Ty: x.Type()}
	case *ssa.MakeMap, *ssa.MakeChan:
		r := e.allocRef(st)
		in.vals[x.(ssa.Value)] = Val{K: KRef, T: r, Ty: x.(ssa.Value).Type()}
	case *ssa.TypeAssert:
		in.typeAssert(x, st)
	case *ssa.Lookup:
		if !e.abstract {
			if _, ok := x.X.Type().Underlying().(*types.Map); ok {
				e.note("map reads return arbitrary values (maps are not modelled)")
			}
		}
		if _, ok := x.X.Type().Underlying().(*types.Map); ok {
			in.pseudoEvent("maplookup", x, []ssa.Value{x.X, x.Index}, st)
		}
		in.vals[x] = e.freshVal(in.name(x), x.Type(), st)
	case *ssa.MapUpdate:
		e.note("map updates are not modelled")
		in.pseudoEvent("mapupdate", x, []ssa.Value{x.Map, x.Key, x.Value}, st)
	case *ssa.If, *ssa.Jump:
	case *ssa.Return:
		// `assert before return[#n]: ..` - a clause evaluated at a return statement of the function under contract
		// itself, with its locals in scope (argN: the values returned); n counts the returns in source order
		if in == e.top {
			in.pseudoEventOrd("return", retIndex(in.fn, x), x, x.Results, st)
		}
		var rs []Val
		for _, r := range x.Results {
			rs = append(rs, in.val(r, st))
		}
		in.rets = append(in.rets, retPoint{st: st.clone(), results: rs, pos: x.Pos(), blk: x.Block(), idx: retIndex(in.fn, x)})
		st.reach = "false"
	case *ssa.Panic:
		if e.safety && !in.panicsAllowedHere() {
			e.oblige("panic", in.srcKey(x.Pos()), x.Pos(), st.reach, "false")
		}
		st.reach = "false"
	case *ssa.RunDefers:
		in.runDefers(st)
	case *ssa.Defer:
		in.deferInstr(x, st)
	case *ssa.Go:
		e.note("go statement: the spawned goroutine is not modelled (" + in.fn.Name() + "); the statement is an event `go` for call-site clauses")
		in.goEvent(x, st)
	case *ssa.Send:
		e.note("channel send is a no-op in the sequential abstraction")
	case *ssa.Select:
		e.note("select is a non-deterministic choice in the sequential abstraction; the statement is an event `select` (argN: channel of case N) for call-site clauses")
		in.selectEvent(x, st)
		in.vals[x] = e.freshVal(in.name(x), x.Type(), st)
		// index is within the number of states (or -1 for default)
		v := in.vals[x]
		if v.K == KStruct && len(v.Fs) > 0 {
			lo := "0"
			if !x.Blocking {
				lo = "(- 1)"
			}
			e.assume(st.reach, sAnd(sApp("<=", lo, v.Fs[0].T), sApp("<", v.Fs[0].T, fmt.Sprint(len(x.States)))))
		}
		in.selectAfter(x, st)
	case *ssa.Range, *ssa.Next:
		if !e.abstract {
			e.fail("range over string or map in %s", in.fn.Name())
		}
		in.vals[x.(ssa.Value)] = e.freshVal(in.name(x.(ssa.Value)), x.(ssa.Value).Type(), st)
	default:
		e.fail("unsupported instruction %T in %s", ins, in.fn.Name())
	}
}

func (in *Inst) panicsAllowedHere() bool {
	for i := in; i != nil; i = i.parent {
		if i.panicsAllowed {
			return true
		}
	}
	return false
}

func (in *Inst) nilCheck(base Val, x ssa.Value, pos token.Pos, st *State) {
	e := in.e
	if !e.safety || base.T == "0" && false {
		return
	}
	if in.recvNonNil && len(in.fn.Params) > 0 && x == ssa.Value(in.fn.Params[0]) && in.fn.Signature.Recv() != nil {
		return
	}
	switch x.(type) {
	case *ssa.Alloc, *ssa.FieldAddr, *ssa.IndexAddr, *ssa.Global:
		return
	}
	if strings.HasPrefix(base.T, "(|sub:") || strings.HasPrefix(base.T, "(elem ") {
		return
	}
	e.oblige("nil", in.srcKey(pos), pos, st.reach, sNot(sEq(base.T, "0")))
}

func (in *Inst) alloc(x *ssa.Alloc, st *State) Val {
	e := in.e
	t := x.Type().Underlying().(*types.Pointer).Elem()
	switch t.Underlying().(type) {
	case *types.Struct:
		if !x.Heap || true {
			if !in.escapesObj(x, t) {
				v := Val{K: KLocalObj, F: fmt.Sprintf("L:%s!%s", in.prefix, x.Name()), Ty: x.Type()}
				in.zeroLocalObj(st, v, t)
				return v
			}
		}
		r := e.allocRef(st)
		e.zeroInit(st, r, t)
		return Val{K: KRef, T: r, Ty: x.Type()}
	case *types.Array:
		r := e.allocRef(st)
		e.zeroInit(st, r, t)
		return Val{K: KRef, T: r, Ty: x.Type()}
	}
	srt := sortOfType(t)
	if srt == "" {
		e.fail("alloc of %s", t)
	}
	if !in.escapes(x) {
		name := fmt.Sprintf("L:%s!%s", in.prefix, x.Name())
		e.regComp(name, srt)
		z := e.zeroVal(t)
		st.set(name, z.T)
		return Val{K: KPtrField, T: "0", F: name, Ty: x.Type()}
	}
	r := e.allocRef(st)
	e.regCell(t)
	p := Val{K: KPtrField, T: r, F: cellComp(t), Ty: x.Type()}
	e.store(st, p, e.zeroVal(t), t)
	return p
}

// escapes: does the address of a scalar cell flow anywhere but loads, stores
// and closures that are inlined?
func (in *Inst) escapes(x *ssa.Alloc) bool {
	for _, r := range *x.Referrers() {
		switch u := r.(type) {
		case *ssa.UnOp:
			if u.Op != token.MUL {
				return true
			}
		case *ssa.Store:
			if u.Val == ssa.Value(x) {
				return true
			}
		case *ssa.DebugRef:
		case *ssa.MakeClosure:
			// the closure must only load/store its free variable
			fnv := u.Fn.(*ssa.Function)
			for i, b := range u.Bindings {
				if b == ssa.Value(x) {
					for _, rr := range *fnv.FreeVars[i].Referrers() {
						switch uu := rr.(type) {
						case *ssa.UnOp:
							if uu.Op != token.MUL {
								return true
							}
						case *ssa.Store:
							if uu.Val == ssa.Value(fnv.FreeVars[i]) {
								return true
							}
						case *ssa.DebugRef:
						default:
							return true
						}
					}
				}
			}
			// a closure that only reads the variable may be used in any way (stored, passed on, spawned): whoever
			// runs it cannot change what this function sees
			readsOnly := true
			for i, b := range u.Bindings {
				if b == ssa.Value(x) {
					for _, rr := range *fnv.FreeVars[i].Referrers() {
						if _, isStore := rr.(*ssa.Store); isStore {
							readsOnly = false
						}
					}
				}
			}
			if readsOnly {
				continue
			}
			// otherwise the closure itself must be deferred or called directly
			for _, cr := range *u.Referrers() {
				switch c := cr.(type) {
				case *ssa.Defer:
				case *ssa.Call:
					if c.Call.Value != ssa.Value(u) {
						return true
					}
				case *ssa.Go:
					if c.Call.Value != ssa.Value(u) {
						return true
					}
					for i, b := range u.Bindings {
						if b == ssa.Value(x) {
							for _, rr := range *fnv.FreeVars[i].Referrers() {
								if _, isStore := rr.(*ssa.Store); isStore {
									return true
								}
							}
						}
					}
				case *ssa.DebugRef:
				default:
					return true
				}
			}
		default:
			return true
		}
	}
	return false
}

func (in *Inst) unop(x *ssa.UnOp, st *State) Val {
	e := in.e
	v := in.val(x.X, st)
	switch x.Op {
	case token.MUL: // load
		if g, ok := x.X.(*ssa.Global); ok {
			if cv, ok := e.W.constGlobal(e, g); ok {
				return cv
			}
			if _, isSt := x.Type().Underlying().(*types.Struct); isSt && e.W.zeroGlobal(g) {
				e.note("package-level struct variable " + g.Pkg.Pkg.Name() + "." + g.Name() + " has no initialiser and is never assigned: it is the zero value")
				return e.zeroVal(x.Type())
			}
		}
		if v.K == KRef {
			in.nilCheck(v, x.X, x.Pos(), st)
		}
		if v.K == KPtrField && strings.HasPrefix(v.F, "C:") {
			in.nilCheckPtr(v, x.X, x.Pos(), st)
		}
		return e.load(st, v, x.Type())
	case token.NOT:
		return Val{K: KBool, T: sNot(v.T), Ty: x.Type()}
	case token.SUB:
		if isFloat(x.Type()) {
			return Val{K: KInt, T: sApp("uf-mul", "(- 1)", v.T), Ty: x.Type()}
		}
		ii, _ := intInfoOf(x.Type())
		return Val{K: KInt, T: e.define(in.name(x), "Int", ii.wrapIte("(- "+v.T+")")), Ty: x.Type()}
	case token.XOR:
		ii, _ := intInfoOf(x.Type())
		if ii.signed {
			return Val{K: KInt, T: e.define(in.name(x), "Int", "(- (- "+v.T+") 1)"), Ty: x.Type()}
		}
		return Val{K: KInt, T: e.define(in.name(x), "Int", "(- "+sBig(ii.hi())+" "+v.T+")"), Ty: x.Type()}
	case token.ARROW:
		e.note("channel receive yields an arbitrary value in the sequential abstraction")
		return e.freshVal(in.name(x), x.Type(), st)
	}
	e.fail("unary op %s", x.Op)
	return Val{}
}

func (in *Inst) nilCheckPtr(p Val, x ssa.Value, pos token.Pos, st *State) {
	if !in.e.safety {
		return
	}
	switch x.(type) {
	case *ssa.Alloc, *ssa.FieldAddr, *ssa.IndexAddr, *ssa.Global:
		return
	}
	in.e.oblige("nil", in.srcKey(pos), pos, st.reach, sNot(sEq(p.T, "0")))
}

func pow2(k int64) *big.Int { return new(big.Int).Lsh(big.NewInt(1), uint(k)) }

func constInt(v ssa.Value) (int64, bool) {
	c, ok := v.(*ssa.Const)
	if !ok || c.Value == nil || c.Value.Kind() != constant.Int {
		return 0, false
	}
	n, ok := constant.Int64Val(c.Value)
	return n, ok
}

func (in *Inst) binop(x *ssa.BinOp, st *State) Val {
	e := in.e
	a := in.val(x.X, st)
	b := in.val(x.Y, st)
	rt := x.Type()
	name := in.name(x)
	switch x.Op {
	case token.EQL, token.NEQ:
		var eq string
		switch a.K {
		case KInt, KBool, KRef:
			eq = sEq(a.T, b.T)
		case KPtrField:
			eq = sEq(a.T, b.T)
		case KSlc:
			if _, isStr := x.X.Type().Underlying().(*types.Basic); isStr {
				eq = in.stringEq(a, b, st)
			} else { // slice == nil
				other := b
				if a.T == nilSlc {
					other = a
					a = b
				}
				_ = other
				eq = sEq(slcArr(a.T), "0")
			}
		case KStruct:
			var cs []string
			for i := range a.Fs {
				if a.Fs[i].K == KStruct || a.Fs[i].K == KSlc {
					e.fail("comparison of nested struct values")
				}
				cs = append(cs, sEq(a.Fs[i].T, b.Fs[i].T))
			}
			eq = sAnd(cs...)
		default:
			e.fail("comparison of %v values", a.K)
		}
		if x.Op == token.NEQ {
			eq = sNot(eq)
		}
		return Val{K: KBool, T: e.define(name, "Bool", eq), Ty: rt}
	case token.LSS, token.LEQ, token.GTR, token.GEQ:
		if a.K == KSlc {
			e.fail("string ordering")
		}
		if isFloat(x.X.Type()) {
			return e.freshVal(name, rt, st)
		}
		op := map[token.Token]string{token.LSS: "<", token.LEQ: "<=", token.GTR: ">", token.GEQ: ">="}[x.Op]
		return Val{K: KBool, T: e.define(name, "Bool", sApp(op, a.T, b.T)), Ty: rt}
	}
	if a.K == KSlc && x.Op == token.ADD {
		return in.stringConcat(x, a, b, st)
	}
	if a.K == KBool { // & | on bools do not appear in SSA (short circuit), but AND/OR might for &^ etc.
		e.fail("boolean binary op %s", x.Op)
	}
	if isFloat(rt) {
		return e.freshVal(name, rt, st)
	}
	ii, ok := intInfoOf(rt)
	if !ok {
		e.fail("binary op %s on %s", x.Op, rt)
	}
	var term string
	switch x.Op {
	case token.ADD:
		term = ii.wrapIte(sApp("+", a.T, b.T))
	case token.SUB:
		term = ii.wrapIte(sApp("-", a.T, b.T))
	case token.MUL:
		if _, ok := constInt(x.X); ok {
			term = ii.wrapIte(sApp("*", a.T, b.T))
		} else if _, ok := constInt(x.Y); ok {
			term = ii.wrapIte(sApp("*", a.T, b.T))
		} else {
			term = ii.wrapIte(sApp("*", a.T, b.T))
		}
	case token.QUO:
		if e.safety {
			e.oblige("div", in.srcKey(x.Pos()), x.Pos(), st.reach, sNot(sEq(b.T, "0")))
		}
		// Go truncates toward zero; SMT div floors (for positive divisor)
		q := fmt.Sprintf("(ite (>= %s 0) (div %s %s) (- (div (- %s) %s)))", a.T, a.T, b.T, a.T, b.T)
		if c, ok := constInt(x.Y); ok && c > 0 {
			term = ii.wrapIte(q)
		} else {
			q2 := fmt.Sprintf("(ite (> %s 0) %s (ite (>= %s 0) (- (div %s (- %s))) (div (- %s) (- %s))))", b.T, q, a.T, a.T, b.T, a.T, b.T)
			term = ii.wrapIte(q2)
		}
	case token.REM:
		if e.safety {
			e.oblige("div", in.srcKey(x.Pos()), x.Pos(), st.reach, sNot(sEq(b.T, "0")))
		}
		// a % b has the sign of a
		absb := fmt.Sprintf("(ite (>= %s 0) %s (- %s))", b.T, b.T, b.T)
		term = fmt.Sprintf("(ite (>= %s 0) (mod %s %s) (- (mod (- %s) %s)))", a.T, a.T, absb, a.T, absb)
	case token.AND:
		if c, ok := constInt(x.Y); ok && c >= 0 && isPow2(c+1) && !ii.signed {
			term = sApp("mod", a.T, fmt.Sprint(c+1))
		} else if c, ok := constInt(x.Y); ok && c >= 0 && isPow2(c+1) {
			term = sApp("mod", a.T, fmt.Sprint(c+1)) // two's complement: x & (2^k-1) == x mod 2^k also for negative x
		} else if ii.bits == 8 {
			term = sApp("and8", a.T, b.T)
		} else {
			term = sApp("uf-and", a.T, b.T)
			e.note("bitwise and on wide operands is uninterpreted")
		}
	case token.OR:
		generic := sApp("uf-or", a.T, b.T)
		if ii.bits == 8 {
			generic = sApp("or8", a.T, b.T)
		}
		term = generic
		if sh, ok := x.X.(*ssa.BinOp); ok && sh.Op == token.SHL {
			// (e << c) | f  with 0 <= f < 2^c is e<<c + f: the low c bits of the (wrapped) shifted value are zero
			if c, ok := constInt(sh.Y); ok && c > 0 && c < int64(ii.bits)-1 {
				lim := pow2(c).String()
				term = sIte(sAnd(sApp("<=", "0", b.T), sApp("<", b.T, lim)), sApp("+", a.T, b.T), generic)
			}
		}
		if ii.bits != 8 {
			e.note("bitwise or on wide operands is uninterpreted")
		}
	case token.XOR:
		if ii.bits == 8 {
			term = sApp("xor8", a.T, b.T)
		} else {
			term = sApp("uf-xor", a.T, b.T)
			e.note("bitwise xor on wide operands is uninterpreted")
		}
	case token.SHL:
		if one, ok := constInt(x.X); ok && one == 1 && ii.bits == 64 {
			// 1 << y for a variable y: exact by cases (y >= 64 gives 0; signed 1<<63 is the minimum)
			var bld strings.Builder
			closeN := 0
			for k := 0; k < 64; k++ {
				v := pow2(int64(k)).String()
				if k == 63 && ii.signed {
					v = "(- 9223372036854775808)"
				}
				fmt.Fprintf(&bld, "(ite (= %s %d) %s ", b.T, k, v)
				closeN++
			}
			bld.WriteString("0")
			bld.WriteString(strings.Repeat(")", closeN))
			term = bld.String()
			break
		}
		if c, ok := constInt(x.Y); ok && c >= 0 && c < 64 {
			term = ii.wrap(sApp("*", a.T, pow2(c).String()))
			term = sIte(ii.rangeOf(sApp("*", a.T, pow2(c).String())), sApp("*", a.T, pow2(c).String()), term)
		} else {
			term = sApp("uf-shl", a.T, b.T)
			e.note("shift by a non-constant amount is uninterpreted")
		}
	case token.SHR:
		if c, ok := constInt(x.Y); ok && c >= 0 && c < 64 {
			term = sApp("div", a.T, pow2(c).String()) // floor division = arithmetic shift
		} else {
			term = sApp("uf-shr", a.T, b.T)
			e.note("shift by a non-constant amount is uninterpreted")
		}
	case token.AND_NOT:
		term = sApp("uf-and", a.T, sApp("-", "(- 1)", b.T))
		e.note("bitwise and-not is uninterpreted")
	default:
		e.fail("binary op %s", x.Op)
	}
	c := e.define(name, "Int", term)
	// uninterpreted results still have the range of their type
	if strings.HasPrefix(term, "(uf-") {
		e.axiom(ii.rangeOf(c))
	}
	return Val{K: KInt, T: c, Ty: rt}
}

func isPow2(n int64) bool { return n > 0 && n&(n-1) == 0 }

// stringEq: content equality, defined by a fresh Boolean with quantified definition.
func (in *Inst) stringEq(a, b Val, st *State) string {
	e := in.e
	if a.T == b.T {
		return "true"
	}
	// comparison with "" is a length test
	if a.T == nilSlc {
		return sEq(slcLen(b.T), "0")
	}
	if b.T == nilSlc {
		return sEq(slcLen(a.T), "0")
	}
	m := st.get("Mem")
	r := e.freshConst("streq", "Bool")
	ma, mb := sSel(m, slcArr(a.T)), sSel(m, slcArr(b.T))
	// r <=> len equal and all bytes equal. Quantifier over absolute index of a.
	d := sSub(slcOff(b.T), slcOff(a.T))
	all := fmt.Sprintf("(forall ((j Int)) (! (=> (and (<= %s j) (< j (+ %s %s))) (= (select %s j) (select %s (+ j %s)))) :pattern ((select %s j))))",
		slcOff(a.T), slcOff(a.T), slcLen(a.T), ma, mb, d, ma)
	k := e.freshConst("streqw", "Int")
	e.assume(st.reach, sImp(r, sAnd(sEq(slcLen(a.T), slcLen(b.T)), all)))
	e.assume(st.reach, sImp(sNot(r), sOr(sNot(sEq(slcLen(a.T), slcLen(b.T))),
		sAnd(sApp("<=", slcOff(a.T), k), sApp("<", k, sAdd(slcOff(a.T), slcLen(a.T))), sNot(sEq(sSel(ma, k), sSel(mb, sAdd(k, d))))))))
	return r
}

func (in *Inst) stringConcat(x *ssa.BinOp, a, b Val, st *State) Val {
	e := in.e
	// fresh string with the concatenated contents
	r := e.allocRef(st)
	la, lb := slcLen(a.T), slcLen(b.T)
	n := sAdd(la, lb)
	m := st.get("Mem")
	arr := e.freshConst("cat", "(Array Int Int)")
	ma, mb := sSel(m, slcArr(a.T)), sSel(m, slcArr(b.T))
	e.assume(st.reach, fmt.Sprintf("(forall ((j Int)) (! (and (=> (and (<= 0 j) (< j %s)) (= (select %s j) (select %s (+ j %s)))) (=> (and (<= %s j) (< j %s)) (= (select %s j) (select %s (+ (- j %s) %s))))) :pattern ((select %s j))))",
		la, arr, ma, slcOff(a.T), la, n, arr, mb, la, slcOff(b.T), arr))
	st.set("Mem", e.define("Mem", e.compSort("Mem"), sStore(m, r, arr)))
	c := e.define(in.name(x), "Slc", mkSlc(r, "0", n, n))
	e.assume(st.reach, sApp("<=", n, maxAlloc))
	return Val{K: KSlc, T: c, Ty: x.Type()}
}

func (in *Inst) convert(x *ssa.Convert, st *State) Val {
	e := in.e
	v := in.val(x.X, st)
	from, to := x.X.Type(), x.Type()
	fk, tk := kindOfType(from), kindOfType(to)
	switch {
	case fk == KInt && tk == KInt:
		if isFloat(from) || isFloat(to) {
			r := e.freshVal(in.name(x), to, st)
			return r
		}
		fi, _ := intInfoOf(from)
		ti, _ := intInfoOf(to)
		if fi.lo().Cmp(ti.lo()) >= 0 && fi.hi().Cmp(ti.hi()) <= 0 {
			v.Ty = to
			return v
		}
		return Val{K: KInt, T: e.define(in.name(x), "Int", ti.wrapIte(v.T)), Ty: to}
	case fk == KSlc && tk == KSlc:
		_, fromStr := from.Underlying().(*types.Basic)
		_, toStr := to.Underlying().(*types.Basic)
		if fromStr == toStr {
			v.Ty = to
			return v
		}
		// string <-> []byte: fresh copy (same offsets; the whole inner array is copied)
		if sl, ok := to.Underlying().(*types.Slice); ok {
			if b, ok := sl.Elem().Underlying().(*types.Basic); !ok || b.Kind() != types.Uint8 {
				e.fail("conversion %s -> %s", from, to)
			}
		}
		if sl, ok := from.Underlying().(*types.Slice); ok {
			if b, ok := sl.Elem().Underlying().(*types.Basic); !ok || b.Kind() != types.Uint8 {
				e.fail("conversion %s -> %s", from, to)
			}
		}
		r := e.allocRef(st)
		m := st.get("Mem")
		st.set("Mem", e.define("Mem", e.compSort("Mem"), sStore(m, r, sSel(m, slcArr(v.T)))))
		ln := slcLen(v.T)
		c := e.define(in.name(x), "Slc", sIte(sEq(ln, "0"), nilSlc, mkSlc(r, slcOff(v.T), ln, ln)))
		return Val{K: KSlc, T: c, Ty: to}
	case fk == KRef && tk == KRef:
		v.Ty = to
		return v
	case fk == KInt && tk == KSlc:
		if e.abstract {
			return e.freshVal(in.name(x), to, st)
		}
		e.fail("conversion of integer to string")
	case tk == KRef || fk == KRef:
		// unsafe.Pointer conversions
		if e.abstract {
			return e.freshVal(in.name(x), to, st)
		}
		e.fail("conversion %s -> %s (unsafe)", from, to)
	}
	e.fail("conversion %s -> %s", from, to)
	return Val{}
}

func (in *Inst) indexAddr(x *ssa.IndexAddr, st *State) Val {
	e := in.e
	base := in.val(x.X, st)
	idx := in.val(x.Index, st)
	switch t := x.X.Type().Underlying().(type) {
	case *types.Slice:
		if e.safety {
			e.oblige("index", in.srcKey(x.Pos()), x.Pos(), st.reach,
				sAnd(sApp("<=", "0", idx.T), sApp("<", idx.T, slcLen(base.T))))
		} else {
			e.assume(st.reach, sAnd(sApp("<=", "0", idx.T), sApp("<", idx.T, slcLen(base.T))))
		}
		abs := e.define(in.name(x)+".i", "Int", sAdd(slcOff(base.T), idx.T))
		return in.elemPtr(slcArr(base.T), abs, t.Elem(), x.Type())
	case *types.Pointer:
		arr := t.Elem().Underlying().(*types.Array)
		in.nilCheck(base, x.X, x.Pos(), st)
		bound := sAnd(sApp("<=", "0", idx.T), sApp("<", idx.T, fmt.Sprint(arr.Len())))
		if e.safety {
			e.oblige("index", in.srcKey(x.Pos()), x.Pos(), st.reach, bound)
		} else {
			e.assume(st.reach, bound)
		}
		return in.elemPtr(base.T, idx.T, arr.Elem(), x.Type())
	}
	e.fail("IndexAddr on %s", x.X.Type())
	return Val{}
}

func (in *Inst) elemPtr(arr, abs string, elem types.Type, pt types.Type) Val {
	switch elem.Underlying().(type) {
	case *types.Struct:
		return Val{K: KRef, T: sApp("elem", arr, abs), Ty: pt}
	case *types.Array:
		in.e.fail("array of arrays")
	}
	return Val{K: KPtrElem, T: arr, I: abs, Ty: pt}
}

func (in *Inst) index(x *ssa.Index, st *State) Val {
	e := in.e
	base := in.val(x.X, st)
	idx := in.val(x.Index, st)
	if base.K != KSlc {
		e.fail("Index on array value")
	}
	bound := sAnd(sApp("<=", "0", idx.T), sApp("<", idx.T, slcLen(base.T)))
	if e.safety {
		e.oblige("index", in.srcKey(x.Pos()), x.Pos(), st.reach, bound)
	} else {
		e.assume(st.reach, bound)
	}
	return e.loadElem(st, slcArr(base.T), sAdd(slcOff(base.T), idx.T), x.Type())
}

func (in *Inst) slice(x *ssa.Slice, st *State) Val {
	e := in.e
	base := in.val(x.X, st)
	var arr, off, ln, cp string
	isStr := false
	switch t := x.X.Type().Underlying().(type) {
	case *types.Slice:
		arr, off, ln, cp = slcArr(base.T), slcOff(base.T), slcLen(base.T), slcCap(base.T)
	case *types.Basic:
		arr, off, ln, cp = slcArr(base.T), slcOff(base.T), slcLen(base.T), slcLen(base.T)
		isStr = true
	case *types.Pointer:
		a := t.Elem().Underlying().(*types.Array)
		in.nilCheck(base, x.X, x.Pos(), st)
		n := fmt.Sprint(a.Len())
		arr, off, ln, cp = base.T, "0", n, n
	default:
		e.fail("slice of %s", x.X.Type())
	}
	lo := "0"
	if x.Low != nil {
		lo = in.val(x.Low, st).T
	}
	hi := ln
	if x.High != nil {
		hi = in.val(x.High, st).T
	}
	mx := cp
	if x.Max != nil {
		mx = in.val(x.Max, st).T
	}
	var bound string
	if isStr {
		bound = sAnd(sApp("<=", "0", lo), sApp("<=", lo, hi), sApp("<=", hi, ln))
	} else if x.Max != nil {
		bound = sAnd(sApp("<=", "0", lo), sApp("<=", lo, hi), sApp("<=", hi, mx), sApp("<=", mx, cp))
	} else {
		bound = sAnd(sApp("<=", "0", lo), sApp("<=", lo, hi), sApp("<=", hi, cp))
	}
	if e.safety {
		e.oblige("slice", in.srcKey(x.Pos()), x.Pos(), st.reach, bound)
	} else {
		e.assume(st.reach, bound)
	}
	newCap := sSub(mx, lo)
	if isStr {
		newCap = sSub(hi, lo)
	}
	term := mkSlc(arr, sAdd(off, lo), sSub(hi, lo), newCap)
	if _, ok := x.X.Type().Underlying().(*types.Pointer); !ok {
		// slicing a nil slice [0:0] stays nil-like: arr 0
		_ = ok
	}
	return Val{K: KSlc, T: e.define(in.name(x), "Slc", term), Ty: x.Type()}
}

func (in *Inst) makeSlice(x *ssa.MakeSlice, st *State) Val {
	e := in.e
	ln := in.val(x.Len, st).T
	cp := in.val(x.Cap, st).T
	bound := sAnd(sApp("<=", "0", ln), sApp("<=", ln, cp), sApp("<=", cp, maxAlloc))
	if e.safety {
		e.oblige("make", in.srcKey(x.Pos()), x.Pos(), st.reach, bound)
	} else {
		e.assume(st.reach, bound)
	}
	r := e.allocRef(st)
	elem := x.Type().Underlying().(*types.Slice).Elem()
	switch kindOfType(elem) {
	case KInt, KRef:
		m := st.get("Mem")
		st.set("Mem", e.define("Mem", e.compSort("Mem"), sStore(m, r, "((as const (Array Int Int)) 0)")))
	default:
		e.note("make of non-scalar element slice: elements start unconstrained rather than zero")
	}
	return Val{K: KSlc, T: e.define(in.name(x), "Slc", mkSlc(r, "0", ln, cp)), Ty: x.Type()}
}

func (in *Inst) typeAssert(x *ssa.TypeAssert, st *State) {
	e := in.e
	v := in.val(x.X, st)
	var res Val
	if kindOfType(x.AssertedType) == KRef {
		res = Val{K: KRef, T: v.T, Ty: x.AssertedType}
	} else if kindOfType(x.AssertedType) == KPtrField && v.K == KRef {
		el := x.AssertedType.Underlying().(*types.Pointer).Elem()
		e.regCell(el)
		res = Val{K: KPtrField, T: v.T, F: cellComp(el), Ty: x.AssertedType}
	} else {
		res = e.freshVal(in.name(x)+".v", x.AssertedType, st)
	}
	if x.CommaOk {
		ok := e.freshConst(in.name(x)+".ok", "Bool")
		e.assume(st.reach, sImp(ok, sNot(sEq(v.T, "0"))))
		zero := e.zeroVal(x.AssertedType)
		var val Val
		if res.K == KRef || res.K == KPtrField {
			val = res
			val.T = sIte(ok, res.T, zero.T)
		} else {
			val = res // arbitrary when !ok is an over-approximation of zero
		}
		in.vals[x] = Val{K: KStruct, Fs: []Val{val, {K: KBool, T: ok}}, Ty: x.Type()}
		return
	}
	e.note("unchecked type assertion assumed to succeed in " + in.fn.Name())
	in.vals[x] = res
}

// ---------------------------------------------------------------------------
// sorted helper
// ---------------------------------------------------------------------------

func sortBlocks(bs map[*ssa.BasicBlock]bool) []*ssa.BasicBlock {
	var xs []*ssa.BasicBlock
	for b := range bs {
		xs = append(xs, b)
	}
	sort.Slice(xs, func(i, j int) bool { return xs[i].Index < xs[j].Index })
	return xs
}

// ---------------------------------------------------------------------------
// Non-escaping local struct objects
// ---------------------------------------------------------------------------

func (e *Enc) localFieldAddr(base Val, T types.Type, i int) Val {
	st := T.Underlying().(*types.Struct)
	f := st.Field(i)
	name := base.F + "." + f.Name()
	switch f.Type().Underlying().(type) {
	case *types.Struct:
		return Val{K: KLocalObj, F: name, Ty: types.NewPointer(f.Type())}
	case *types.Array:
		e.fail("array field of a local object")
	}
	e.regComp(name, sortOfType(f.Type()))
	return Val{K: KPtrField, T: "0", F: name, Ty: types.NewPointer(f.Type())}
}

func (in *Inst) zeroLocalObj(st *State, v Val, t types.Type) {
	e := in.e
	stt := t.Underlying().(*types.Struct)
	for i := 0; i < stt.NumFields(); i++ {
		p := e.localFieldAddr(v, t, i)
		if p.K == KLocalObj {
			in.zeroLocalObj(st, p, stt.Field(i).Type())
			continue
		}
		st.set(p.F, e.zeroVal(stt.Field(i).Type()).T)
	}
}

// escapesObj: does the address of a local struct flow anywhere but field accesses, whole loads
// and stores, and closures that are inlined (which again only do those)?
func (in *Inst) escapesObj(x ssa.Value, t types.Type) bool {
	if hasArrayField(t, 0) {
		return true
	}
	return refsEscape(x, 0)
}

func hasArrayField(t types.Type, depth int) bool {
	st, ok := t.Underlying().(*types.Struct)
	if !ok || depth > 5 {
		return false
	}
	for i := 0; i < st.NumFields(); i++ {
		switch u := st.Field(i).Type().Underlying().(type) {
		case *types.Array:
			return true
		case *types.Struct:
			_ = u
			if hasArrayField(st.Field(i).Type(), depth+1) {
				return true
			}
		}
	}
	return false
}

func refsEscape(x ssa.Value, depth int) bool {
	if depth > 6 || x.Referrers() == nil {
		return true
	}
	for _, r := range *x.Referrers() {
		switch u := r.(type) {
		case *ssa.DebugRef:
		case *ssa.UnOp:
			if u.Op != token.MUL {
				return true
			}
		case *ssa.Store:
			if u.Val == x {
				return true
			}
		case *ssa.FieldAddr:
			switch u.Type().Underlying().(*types.Pointer).Elem().Underlying().(type) {
			case *types.Struct:
				if refsEscape(u, depth+1) {
					return true
				}
			default:
				for _, rr := range *u.Referrers() {
					switch uu := rr.(type) {
					case *ssa.DebugRef:
					case *ssa.UnOp:
						if uu.Op != token.MUL {
							return true
						}
					case *ssa.Store:
						if uu.Val == ssa.Value(u) {
							return true
						}
					default:
						return true
					}
				}
			}
		case *ssa.MakeClosure:
			fnv := u.Fn.(*ssa.Function)
			for i, b := range u.Bindings {
				if b == x {
					if refsEscape(fnv.FreeVars[i], depth+1) {
						return true
					}
				}
			}
			for _, cr := range *u.Referrers() {
				switch c := cr.(type) {
				case *ssa.Defer:
				case *ssa.Call:
					if c.Call.Value != ssa.Value(u) {
						return true
					}
				case *ssa.DebugRef:
				default:
					return true
				}
			}
		default:
			return true
		}
	}
	return false
}
